#!/bin/sh
# usage: [CHECKS="C13 C14"] tools/runall.sh <tier> <seed>...    runs every (or the named) check once per seed, prints one line per run
cd "$(dirname "$0")/.." || exit 2
tier=$1; shift
for seed in "$@"; do
  for id in ${CHECKS:-C01 C02 C03 C04 C05 C06 C07 C08 C09 C10 C11 C12 C13 C14 C15 C16 C17 C18 C19 C20}; do
    s=$(date +%s)
    out=$(VERIF_SEED=$seed ./check $id $tier 2>&1); rc=$?
    e=$(date +%s)
    echo "seed=$seed $id rc=$rc $((e-s))s $(echo "$out" | grep -E 'VIOLATION|INCONCLUSIVE|KNOWN-FINDING|signature=' | head -3 | tr '\n' '|' | cut -c1-400)"
  done
done
