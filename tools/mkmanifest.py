#!/usr/bin/env python3
"""Regenerates MANIFEST.json from the table below (single source of truth for the interface)."""
import json, os, subprocess
V = os.path.dirname(os.path.dirname(os.path.abspath(__file__)))

CHECKS = {
 # id: (category, technique, text, note, design_ref)
 "C01": ("exploration", "runtime reference-model monitor over generated tables and writer configurations, ASan/UBSan on writer+reader, mtbl_dump output parsed and compared",
         "Generated strictly increasing sequences (binary keys, empty key, keys/values >=128 B and >=16 KiB, entries larger than a block, long shared prefixes) are written by the real writer under generated configurations (6 compression types x level classes incl. clamped x block sizes x restart intervals x pool sizes x foreign prefixes x madvise/verify) and read back entry by entry against the sequence; a sampled subset goes through the real mtbl_dump with -k/-v/-K/-V filters; lengths on varint boundaries (2^7, 2^14, 2^21) and tables behind sparse foreign prefixes of 2^31..5*2^32 bytes are generated on purpose. Sampled inputs, no exhaustiveness claim. Also: pools that served a sorter before the writer gets them, and a table whose middle value has 2^31+4 KiB bytes.",
         "trusted: harness generator/model (harness/gen.h, common.h), gcc ASan/UBSan", "DESIGN.md §4 C01"),
 "C02": ("exploration", "runtime reference-model monitor with query sets derived from each table (stored keys, neighbours, prefixes, index separators), ASan",
         "For each generated multi-block table every derived query is run through mtbl_source_get / get_prefix (exhaustively over the derived set) and get_range (all pairs on small sets, seeded pairs otherwise, incl. inverted/equal/empty bounds); every iterator is drained against the sorted-array model and checked for sticky failure.",
         "trusted: sorted-array model with own comparator; separators recovered by harness/refdec.c", "DESIGN.md §4 C02"),
 "C03": ("exploration", "online model-shadowed iterators: full (position,target) product on small layouts + random interleaved histories, buffer-stability monitor, ASan",
         "Each mtbl_iter is shadowed by a model position; part 1 executes the complete product of (ways to reach a position) x (seek targets) for six iterator bounds on small 3-6 block layouts for every restart interval, with and without foreign prefix; part 2 runs random 40-200 op histories on up to four interleaved iterators of larger/compressed tables; buffers handed out by next are re-read right before the next call on that iterator.",
         "trusted: model in harness/itercheck.h; layout classes from harness/refdec.c", "DESIGN.md §4 C03"),
 "C09": ("translation_validation", "independent decoder (own varint/CRC/block parser, direct zlib/snappy/lz4/zstd calls) validates every emitted file rule by rule",
         "Every file the real writer emits for the C01 generator is parsed without the library and checked against each structural rule of the statement (contiguity from the initial offset, foreign bytes untouched, length prefixes, CRC-32C, index entries/offsets/separator interval, trailer padding+magic, restart validity and cadence, maximal prefix elision, block-size rules in the two stated directions). Per-rule counters show which rules were exercised. A writer-made block whose entry area is exactly UINT32_MAX bytes (thorough: UINT32_MAX-1, +1, +4096) is decoded independently and read back.",
         "trusted: harness/refdec.c and the compression libraries it calls directly", "DESIGN.md §4 C09"),
 "C10": ("exploration", "runtime differential monitor: metadata accessors and parsed mtbl_info output vs truth recomputed from file bytes by the independent decoder",
         "For generated files (incl. empty table, foreign prefix, pooled writers, interleaved refused adds) all ten mtbl_metadata_* accessors are compared with counts and byte extents recomputed from the bytes; the real mtbl_info is parsed for a sampled subset; one table larger than 4 GiB (every byte counter and offset crosses 2^32) is written and compared with frame lengths read independently.",
         "trusted: harness/refdec.c; if the decoder cannot establish the truth the run is inconclusive, not a violation", "DESIGN.md §4 C10"),
 "C15": ("exploration", "runtime round-trip monitor over (algorithm, level, buffer) with exact-size ASan buffers; exhaustive over lengths 0..64 x 5 contents",
         "Every length 0..64 x five contents (exhaustive) and seeded structured/incompressible buffers up to MiBs are compressed by mtbl_compress and mtbl_compress_level (levels from far below the minimum to far above the maximum), copied to an exact-size buffer, decompressed and compared; aborts are observed as process deaths; names round-trip and unknown names / out-of-enum types are refused. Plus lazily mapped zero buffers of 2^31..2^33 bytes, 0.5-2 GiB incompressible buffers, and every string at edit distance one from an algorithm name.",
         "trusted: gcc ASan; compress failure is allowed by the statement and only counted", "DESIGN.md §4 C15"),
 "C17": ("exploration", "runtime differential monitor vs bit-at-a-time CRC-32C on exact-size ASan buffers; all lengths 0..1100 x alignments 0..7, both implementations called directly",
         "mtbl_crc32c, my_crc32c_slicing and (when the CPU has SSE4.2) my_crc32c_sse42 are compared with a bitwise reference on every length 0..1100 at every alignment, every byte value at every position mod 8, RFC 3720 vectors, random buffers and five sparse buffers of 2^31-5 .. 2^32+8005 bytes (reference built from a GF(2) zero-run operator); the table-driven path is also forced through the public entry point. Two runs per build execute as a CPU without SSE4.2 (link-time shim on the CPU-feature question) so the library's own fallback selection is observed; thorough adds a 32 GiB buffer. The feature test itself is run on four emulated CPU models (CPUID faulting + SIGSEGV handler rewriting the SSE4.1/SSE4.2 bits) where the kernel allows it.",
         "trusted: 8-line bitwise CRC in harness/h_c17.c (self-checked against RFC 3720 vectors); hardware path covered only if cpuid reports SSE4.2", "DESIGN.md §4 C17"),
 "C08": ("exploration", "runtime reference-model monitor of every mtbl_writer_add return value over adversarial key sequences; finished file vs accepted subsequence; pre-existing targets snapshot-compared",
         "Add sequences with ~40% deliberately non-increasing keys (equal, proper prefix, byte lowered, 0xff tails, bytes crossing 0x7f/0x80, empty first key) are fed to the real writer; each return value is compared with the model (key > last accepted, own unsigned comparator), the finished file (independent decoder, real reader, count_entries) with the accepted subsequence; mtbl_writer_init on six kinds of pre-existing target must return NULL and leave lstat+content unchanged. Thorough: keys of 2^31+1 bytes against their own prefixes/extensions and a 16-byte key with a value of UINT32_MAX-8 bytes.",
         "trusted: harness comparator/model, harness/refdec.c", "DESIGN.md §4 C08"),
 "C11": ("exploration", "independent encoder with free legal encoding choices -> real reader compared with the model on iteration, derived lookups, seek histories; >4 GiB block built sparsely",
         "The same logical content is encoded by harness/refenc.c under random legal choices (v1/v2, restart sets from every entry to only the first, non-maximal sharing, separators anywhere in the legal interval, block cuts, six compression types by direct library calls, foreign prefix, index-block choices), self-checked by the independent decoder, then read by the real reader: full iteration, derived lookups, random seek histories, directed block-gap seek sequences, with and without verify_checksums; a data block above 4 GiB with a 64-bit restart array and restart points above UINT32_MAX is built as a sparse file and iterated, looked up and sought.",
         "trusted: harness/refenc.c + refdec.c (cross-checked against /repo/t sample files and the real reader at start-up)", "DESIGN.md §4 C11"),
 "C12": ("fault_enumeration", "bit-flip fault injection into block crc+payload; outcomes observed through the real mtbl_verify tool and a forked verifying reader streaming returned entries over a pipe",
         "Exhaustive single-bit flips over every block (crc field + stored bytes, index included) of small files, seeded double/triple-bit and burst<=32 faults on larger/compressed files hitting first/middle/last/index blocks; for each fault the real mtbl_verify must not print OK / exit 0 and a verifying reader (iterate, get, get_prefix, get_range, iter+seek) must not hand out any entry of the damaged block; intact files of every configuration must verify and read completely. The reader options are set through five setter call patterns and mtbl_verify is also run with an intact file before/after the damaged one on its command line. A sixth access path seeks past the damaged block and back into it.",
         "trusted: block extents from harness/refdec.c; fault classes restricted to those CRC-32C guarantees to detect", "DESIGN.md §4 C12"),
 "C19": ("fault_enumeration", "guard-page interposition of the reader's mmap (ld --wrap) + field/truncation mutation enumeration; forked child outcome classification (plain and ASan builds)",
         "The file image is placed between two 8 GiB PROT_NONE regions (end-aligned and start-aligned), so any access outside the file's bytes during mtbl_reader_init/_init_fd is a SIGSEGV. Enumerated: every trailer field against a boundary value set, magic swaps, index length prefix (varint and fixed32) against the value set and 1-byte corruptions, truncations, head cuts, all lengths 512..544, seeded random files; verify_checksums on and off. Plus forgeries that keep redundant trailer fields consistent with each other and random field pairs/triples.",
         "trusted: the mmap shim (harness/h_c19.c); 8 GiB horizon; allowed outcomes NULL / reader / SIGABRT", "DESIGN.md §4 C19"),
 "C20": ("fault_enumeration", "link-time interposition of write(2) (ld --wrap=write) executing scripted fault plans; byte comparison with the all-full reference; hard errors in forked children",
         "For small tables every write() call index x {partial(1), partial(n-1), partial(n/2), EINTRx1, EINTRx3} is executed and the finished file compared byte-for-byte with the reference; every call index x hard error {EIO, ENOSPC, EBADF, return 0} must stop the process with a message and never return from mtbl_writer_destroy; seeded multi-fault plans (p=0.1/0.5/0.9, one-byte writes) on small/medium, pooled/unpooled writers.",
         "trusted: the write shim; partial writes really write n bytes", "DESIGN.md §4 C20"),
 "C04": ("exploration", "runtime reference-model monitor with a multiplicity-sensitive (multiset-of-unique-ids) merge function over generated source families; user-defined sources that invalidate buffers under ASan; real mtbl_merge tool with a test DSO",
         "Families of 0-12 sources (real tables and user-defined sources that free/re-allocate their buffers on every call, duplicate keys inside user sources, empty sources, the empty key in none/one/all sources; layouts random/identical/disjoint/interleaved/nested) are merged in four modes (merge function, none, none+dupsort, failing merge function) and observed through mtbl_iter_next, mtbl_source_write + read back and the real mtbl_merge; values are lists of unique ids so the final value shows exactly which source values were folded and how often.",
         "trusted: model + merge function in harness/family.h, msmerge.h; order among equal keys without dupsort is compared as a multiset", "DESIGN.md §4 C04"),
 "C05": ("exploration", "online model-shadowed iterators on merger sources: derived lookups, full (position,target) product on small families, random interleaved histories, buffer-stability monitor, ASan",
         "The merger source is treated as one table holding the merged content: derived query sets (incl. first/last key of every source) for get/get_prefix/get_range; the complete product of ways-to-reach-a-position x seek targets (always including the key just returned, backwards after exhaustion, keys that need merging) on small families; random 40-200 op histories on up to four interleaved merger iterators with one-off merge-function failures injected (the call fails, stays failed until a seek, a retry by seek yields the full fold); merge-function mode and dupsort mode.",
         "trusted: model in harness/family.h + itercheck.h", "DESIGN.md §4 C05"),
 "C06": ("exploration", "runtime reference-model monitor of the sorter with mkstemp interposed (ld --wrap) to observe every spill: location, count and deadline; MTBL_VERIF hook for tiny chunks",
         "Add sequences (random/sorted/reverse/all-equal/duplicates adjacent or spread, empty key, empty input) x memory limits from one entry per chunk to everything in memory x pools {none,0,1,2,4,8}; output through the iterator (full or abandoned) or mtbl_sorter_write compared with the model (multiset merge); every mkstemp template must lie in the configured temp dir, buffered payload must stay below the limit after every add (synchronous spills), spill count has a lower bound, temp dir empty afterwards; add/write refused after iteration began; with a failing merge function either a call reports the failure or the output must be complete. The library built without the hook is run for requests below its 10 MiB minimum (c06min); thorough adds an entry above 2 GiB. A second, shrinking merge function (smaller operand), callbacks that need 640 KiB of stack and temp directories with 300-420-byte paths are part of the generated configurations.",
         "trusted: mkstemp shim; loosest reading of 'buffered entries reach the memory limit' (payload bytes)", "DESIGN.md §4 C06"),
 "C07": ("exploration", "event-trace monitor: virtual CLOCK_MONOTONIC and stat(setfile) interposed (ld --wrap), model of the shared view updated at each observed reload attempt, snapshot-shadowed iterators, ASan",
         "Random and scripted histories over 1-5 handles (dups with other intervals/filters/merge options), table files created/replaced/deleted, setfile rewrites, clock advances, reload/reload_now, iterators opened/advanced/sought/closed, handles destroyed in any order. P1: no stat(setfile) while an iterator is open; P2: forced/interval reload deadline at source operations; P3: a new iterator returns merge(view as of latest reload, filtered per handle); P4: older iterators keep their snapshot; ASan catches any use of an unloaded reader.",
         "trusted: shims in harness/h_c07.c; model of my_fileset semantics (names already loaded keep their reader; setfile re-read only when inode/mtime change)", "DESIGN.md §4 C07"),
 "C13": ("exploration", "controlled scheduler for the real threadpool/writer/sorter code (ld --wrap of pthread_* ; random walk, sticky random, PCT depth 1-3, injected spurious wake-ups) with deadlock = empty enabled set; native runs with delay injection under ASan and TSan",
         "All threads are real but only the baton holder runs; every pthread call of mtbl/threadpool.c is a scheduling point. Scenarios: raw pool via threadpool.h (0-40 jobs, pool 1-6, 1-3 ordered/unordered handlers, 1-2 dispatcher threads) with exactly-once / order / max-worker / max-concurrency checkers; pooled writer vs unpooled bytes (also two writers sharing a pool); pooled multi-chunk sorter vs model (iterate, write, destroy without iterating). Distinct schedules are counted by hashing the choice trace. The shim also watches the lifetime of every mutex/condition variable (calls on destroyed or freed objects).",
         "trusted: harness/sched_shim.h (its own lock/condition bookkeeping); sampling of schedules, no enumeration; bounded-progress reading of 'calls return'", "DESIGN.md §4 C13"),
 "C14": ("exploration", "ThreadSanitizer build of the library under concurrent workloads (shared pool from several caller threads; many threads on one reader) with delay injection; reports de-duplicated by accessing library functions",
         "Process runs under -fsanitize=thread: 2-6 caller threads each with a pooled writer and pooled multi-chunk sorter sharing one pool; 4-12 threads on one open reader through private iterators (scan, get, get_prefix, get_range, seek storms) for all compression types and verify on/off; concurrent mtbl_crc32c. Every TSan data-race report whose accessing frame is library code is a violation.",
         "trusted: gcc TSan; races only on executed access pairs", "DESIGN.md §4 C14"),
 "C18": ("exploration", "stateful API-history generator with dependency-consistent teardown; /proc/self/fd, file-backed maps, /proc/self/task and directory snapshots; LeakSanitizer; ASan live-byte counter over repeated identical histories",
         "Histories create and use pools, writers (pooled, refused adds), readers (valid / non-table / short), mergers (incl. failing callback), iterators of all kinds on readers/mergers/filesets/sorters (untouched, half-drained, drained, sought), sorters (1 entry per chunk .. in memory, pooled or not, destroyed unused / before iterating / after iteration / after a reported failure), filesets with dups and reloads; everything is destroyed in a random order consistent with the dependency graph; then descriptors, mappings, threads, temp dir, LSan and live heap bytes (steady state over 3-4 repetitions) are compared with the state before. Refused opens include valid tables with a forged index offset / index length (refused after the mapping exists). Histories also contain user-defined sources with a free callback, mtbl_fileset_partition, codec calls on damaged input, a reload whose fopen fails, and repeated mtbl_sorter_iter calls.",
         "trusted: ASan allocator statistics and LeakSanitizer; anonymous mappings ignored by construction", "DESIGN.md §4 C18"),
 "C16": ("exploration", "runtime differential monitor vs textbook LEB128 + ASan exact-size buffers; exhaustive 2^32 enumeration in thorough",
         "Every 32-bit value (thorough: all 2^32, quick: 64 full 2^20 ranges) and boundary/walking/random 64-bit values are encoded, decoded and measured by the real functions and compared byte-for-byte with a textbook LEB128 / explicit little-endian reference; buffers are exact-size heap allocations under ASan so any access beyond the encoding is a report. Exhaustive for the 32-bit half, sampled for 64 bits. length_packed is also called with bounds of 2^31..2^33+12 over a really mapped region.",
         "trusted: the 10-line LEB128 reference in harness/h_c16.c, gcc ASan red zones", "DESIGN.md §4 C16"),
}

NOT_YET = "check under construction in this session; not claimed until its quick check has been silent on the unchanged tree for several seeds"

def main():
    props = [json.loads(l)["id"] for l in open(os.path.join(V, "properties.jsonl"))]
    hooks = subprocess.run(["git", "-C", "/repo", "log", "--format=%H %s"], stdout=subprocess.PIPE, text=True).stdout.splitlines()
    hook_commits = [l.split()[0] for l in hooks if "verif hook" in l]
    m = {
        "version": 1,
        "setup_cmd": "./setup.sh",
        "hooks": {
            "guard": "MTBL_VERIF",
            "enable": "checks compile /repo's library sources themselves (lib/build.py) with -DMTBL_VERIF; the autotools build never defines it",
            "baseline_off_cmd": "cd /repo && make -j8 >/dev/null 2>&1 && make check -j8",
            "source_commits": hook_commits,
            "add_only": True,
        },
        "engines": [{"name": "runtime-monitor", "path": "check", "serves_properties": sorted(CHECKS),
                     "kind_free_text": "sanitizer builds of /repo's working tree + C harnesses with reference-model monitors, link-time interposition shims and a Python runner (lib/runner.py)"}],
        "checks": [],
        "notes": "Every check rebuilds the library from /repo's working tree into /verif/.build/<id>/ (removed afterwards). exit 0 held / 1 violation / 2 inconclusive or harness failure. VERIF_SEED seeds all random choices.",
        "not_applicable": [],
    }
    for pid in props:
        if pid in CHECKS:
            cat, tech, text, note, ref = CHECKS[pid]
            m["checks"].append({
                "property_id": pid,
                "quick_cmd": "./check %s quick" % pid,
                "thorough_cmd": "./check %s thorough" % pid,
                "evidence_file": "evidence/%s.json" % pid,
                "replay_cmd_template": "./check %s --replay {path}" % pid,
                "engine": "runtime-monitor",
                "level_claimed": {"category": cat, "text": text, "design_ref": ref},
                "level_note": note,
                "technique": tech,
            })
        else:
            m["not_applicable"].append({"property_id": pid, "reason": NOT_YET})
    with open(os.path.join(V, "MANIFEST.json"), "w") as f:
        json.dump(m, f, indent=1)
        f.write("\n")

if __name__ == "__main__":
    main()
