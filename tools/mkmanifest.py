#!/usr/bin/env python3
"""Regenerates MANIFEST.json from the table below (single source of truth for the interface)."""
import json, os, subprocess
V = os.path.dirname(os.path.dirname(os.path.abspath(__file__)))

CHECKS = {
 # id: (category, technique, text, note, design_ref)
 "C16": ("exploration", "runtime differential monitor vs textbook LEB128 + ASan exact-size buffers; exhaustive 2^32 enumeration in thorough",
         "Every 32-bit value (thorough: all 2^32, quick: 64 full 2^20 ranges) and boundary/walking/random 64-bit values are encoded, decoded and measured by the real functions and compared byte-for-byte with a textbook LEB128 / explicit little-endian reference; buffers are exact-size heap allocations under ASan so any access beyond the encoding is a report. Exhaustive for the 32-bit half, sampled for 64 bits.",
         "trusted: the 10-line LEB128 reference in harness/h_c16.c, gcc ASan red zones", "DESIGN.md §4 C16"),
}

NOT_YET = "check under construction in this session; not claimed until its quick check has been silent on the unchanged tree for several seeds"

def main():
    props = [json.loads(l)["id"] for l in open(os.path.join(V, "properties.jsonl"))]
    hooks = subprocess.run(["git", "-C", "/repo", "log", "--format=%H %s"], stdout=subprocess.PIPE, text=True).stdout.splitlines()
    hook_commits = [l.split()[0] for l in hooks if "verif hook" in l]
    m = {
        "version": 1,
        "setup_cmd": "./setup.sh",
        "hooks": {
            "guard": "MTBL_VERIF",
            "enable": "checks compile /repo's library sources themselves (lib/build.py) with -DMTBL_VERIF; the autotools build never defines it",
            "baseline_off_cmd": "cd /repo && make -j8 >/dev/null 2>&1 && make check -j8",
            "source_commits": hook_commits,
            "add_only": True,
        },
        "engines": [{"name": "runtime-monitor", "path": "check", "serves_properties": sorted(CHECKS),
                     "kind_free_text": "sanitizer builds of /repo's working tree + C harnesses with reference-model monitors, link-time interposition shims and a Python runner (lib/runner.py)"}],
        "checks": [],
        "notes": "Every check rebuilds the library from /repo's working tree into /verif/.build/<id>/ (removed afterwards). exit 0 held / 1 violation / 2 inconclusive or harness failure. VERIF_SEED seeds all random choices.",
        "not_applicable": [],
    }
    for pid in props:
        if pid in CHECKS:
            cat, tech, text, note, ref = CHECKS[pid]
            m["checks"].append({
                "property_id": pid,
                "quick_cmd": "./check %s quick" % pid,
                "thorough_cmd": "./check %s thorough" % pid,
                "evidence_file": "evidence/%s.json" % pid,
                "replay_cmd_template": "./check %s --replay {path}" % pid,
                "engine": "runtime-monitor",
                "level_claimed": {"category": cat, "text": text, "design_ref": ref},
                "level_note": note,
                "technique": tech,
            })
        else:
            m["not_applicable"].append({"property_id": pid, "reason": NOT_YET})
    with open(os.path.join(V, "MANIFEST.json"), "w") as f:
        json.dump(m, f, indent=1)
        f.write("\n")

if __name__ == "__main__":
    main()
