#!/bin/sh
# kill stray harness processes and scratch worktrees left by interrupted runs
for n in h_c13.sched h_c13.native h_c13.tsan h_c12 h_c14 h_c18 h_c07 h_sorter h_merger h_reader h_table h_writer h_c19 h_c20 h_c11 h_c15 h_c16 h_c17; do pkill -9 -x "$n" 2>/dev/null; done
for d in /tmp/seedval/*; do [ -d "$d" ] && { git -C /repo worktree remove --force "$d" 2>/dev/null; rm -rf "$d"; }; done
git -C /repo worktree prune
rm -rf /var/tmp/mtblv-* 2>/dev/null
exit 0
