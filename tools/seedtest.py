#!/usr/bin/env python3
"""Seeded-mutant workflow.
  collect                 copy /tmp/seed/<P>/SEED/<n> into /verif/seeded/<P>-<n>/
  validate <id>...|all    confirm in a scratch worktree: demo passes clean, patch applies, 15 tests pass, demo fails
  detect <id>...|all [--tier quick|thorough] [--checks C01,C09]
                          run the owning check (or the listed checks) against a scratch worktree with the patch applied
Scratch worktrees live under /tmp/seedval and are removed afterwards.  /repo itself is never modified.
"""
import json, os, shutil, subprocess, sys, time
from concurrent.futures import ThreadPoolExecutor
V = os.path.dirname(os.path.dirname(os.path.abspath(__file__)))
SEEDED = os.path.join(V, "seeded")
SCR = "/tmp/seedval"


def sh(cmd, **kw):
    return subprocess.run(cmd, shell=True, stdout=subprocess.PIPE, stderr=subprocess.STDOUT, text=True, **kw)


def ids(args):
    if not args or args[0] == "all":
        return sorted(d for d in os.listdir(SEEDED) if os.path.isdir(os.path.join(SEEDED, d)))
    return args


def collect(root="/tmp/seed", suffix=""):
    os.makedirs(SEEDED, exist_ok=True)
    for p in sorted(os.listdir(root)):
        sd = os.path.join(root, p, "SEED")
        if not os.path.isdir(sd):
            continue
        for n in sorted(os.listdir(sd)):
            src = os.path.join(sd, n)
            if not os.path.exists(os.path.join(src, "patch.diff")):
                continue
            dst = os.path.join(SEEDED, "%s-%s%s" % (p, suffix, n))
            if os.path.exists(dst):
                continue
            shutil.copytree(src, dst, ignore=shutil.ignore_patterns("*.o", "*.a", "a.out"))
            meta = {"id": "%s-%s%s" % (p, suffix, n), "property": p, "origin": "independent sub-agent given only the property text and a scratch worktree",
                    "needs_to_manifest": "see notes.md", "validated": None, "detected_by": {}}
            json.dump(meta, open(os.path.join(dst, "meta.json"), "w"), indent=1)
            print("collected", dst)


def worktree(tag, build=True):
    d = os.path.join(SCR, tag)
    sh("git -C /repo worktree remove --force %s" % d)
    shutil.rmtree(d, ignore_errors=True)
    os.makedirs(SCR, exist_ok=True)
    r = sh("git -C /repo worktree add --detach %s HEAD" % d)
    if r.returncode:
        raise RuntimeError(r.stdout)
    if build:
        sh("rsync -a --exclude .git --exclude SEED /repo/ %s/" % d)
        sh("git -C %s checkout -- . && cd %s && make -j8" % (d, d))
    else:
        # only what lib/build.py needs besides the tracked sources
        shutil.copy("/repo/config.h", d)
    return d


def rm_worktree(d):
    sh("git -C /repo worktree remove --force %s" % d)
    shutil.rmtree(d, ignore_errors=True)


def validate(i):
    sd = os.path.join(SEEDED, i)
    meta = json.load(open(os.path.join(sd, "meta.json")))
    d = worktree("val-" + i)
    log = {}
    try:
        demo = os.path.join(sd, "run_demo.sh")
        os.chmod(demo, 0o755)
        r = sh("%s %s" % (demo, d), timeout=900, cwd=sd)
        log["demo_clean_rc"] = r.returncode
        a = sh("git -C %s apply %s" % (d, os.path.join(sd, "patch.diff")))
        log["apply_rc"] = a.returncode
        b = sh("cd %s && make -j8 2>&1 | tail -5" % d)
        log["build_rc"] = b.returncode
        t = sh("cd %s && make check -j8 2>&1 | grep -E '^# (PASS|FAIL|ERROR|TOTAL)'" % d)
        log["tests"] = " ".join(t.stdout.split())
        r2 = sh("%s %s" % (demo, d), timeout=900, cwd=sd)
        log["demo_mutant_rc"] = r2.returncode
        log["demo_mutant_tail"] = r2.stdout[-400:]
        ok = log["demo_clean_rc"] == 0 and a.returncode == 0 and "# PASS: 15" in log["tests"] and "# FAIL: 0" in log["tests"] and r2.returncode != 0
        meta["validated"] = {"ok": ok, "ran": "run_demo.sh on clean scratch worktree (rc %s); git apply (rc %s); make; make check (%s); run_demo.sh on mutant (rc %s)" %
                             (log["demo_clean_rc"], log["apply_rc"], log["tests"], log["demo_mutant_rc"]), "demo_output_on_mutant": log["demo_mutant_tail"]}
    except Exception as e:
        meta["validated"] = {"ok": False, "ran": "exception: %r" % e}
    finally:
        rm_worktree(d)
    json.dump(meta, open(os.path.join(sd, "meta.json"), "w"), indent=1)
    print(i, "VALID" if meta["validated"]["ok"] else "INVALID", meta["validated"]["ran"])
    return meta["validated"]["ok"]


def detect(i, tier, checks):
    sd = os.path.join(SEEDED, i)
    meta = json.load(open(os.path.join(sd, "meta.json")))
    d = worktree("det-" + i, build=False)
    out = {}
    try:
        a = sh("git -C %s apply %s" % (d, os.path.join(sd, "patch.diff")))
        if a.returncode:
            print(i, "patch does not apply:", a.stdout)
            return
        tier = meta.get("detect_tier", tier)
        for c in (checks or meta.get("detect_checks") or [meta["property"]]):
            env = dict(os.environ, VERIF_REPO=d, VERIF_EVIDENCE_DIR=os.path.join(d, "_ev"), VERIF_REPLAY_DIR=os.path.join(d, "_rp"),
                       VERIF_BUILD_ROOT=os.path.join(d, "_build"))
            if meta.get("detect_subs"):      # only the named sub-commands of the tier (a thorough tier can take an hour; the mutant needs one case of it)
                env["VERIF_ONLY_SUBS"] = meta["detect_subs"]
            t0 = time.time()
            # own session: on a timeout only this check's process group is killed (never other runs' harness processes)
            pr = subprocess.Popen([os.path.join(V, "check"), c, tier], stdout=subprocess.PIPE, stderr=subprocess.STDOUT, text=True, env=env, cwd=V, start_new_session=True)
            try:
                so, _ = pr.communicate(timeout=2400)
            except subprocess.TimeoutExpired:
                import signal
                try:
                    os.killpg(pr.pid, signal.SIGKILL)
                except ProcessLookupError:
                    pass
                pr.communicate()
                print(i, c, tier, "CHECK DID NOT FINISH within 2400 s")
                out[c] = {"tier": tier, "rc": None, "signatures": ["did-not-finish-within-2400s"], "wall_s": 2400}
                continue
            r = subprocess.CompletedProcess(pr.args, pr.returncode, so, None)
            sigs = sorted(set(l.split("signature=")[1].split()[0] for l in r.stdout.splitlines() if "signature=" in l))
            out[c] = {"tier": tier, "rc": r.returncode, "signatures": sigs[:8], "wall_s": round(time.time() - t0, 1)}
            print(i, c, tier, "rc=%d" % r.returncode, "DETECTED" if r.returncode == 1 else ("MISSED" if r.returncode == 0 else "INCONCLUSIVE"), sigs[:4])
            if r.returncode not in (0, 1):
                print(r.stdout[-1500:])
    finally:
        rm_worktree(d)
    meta.setdefault("detected_by", {}).update(out)
    json.dump(meta, open(os.path.join(sd, "meta.json"), "w"), indent=1)


def main():
    cmd = sys.argv[1]
    args = sys.argv[2:]
    tier = "quick"
    checks = None
    if "--tier" in args:
        k = args.index("--tier"); tier = args[k + 1]; del args[k:k + 2]
    if "--checks" in args:
        k = args.index("--checks"); checks = args[k + 1].split(","); del args[k:k + 2]
    if cmd == "collect":
        collect(*args)
    elif cmd == "validate":
        with ThreadPoolExecutor(4) as ex:
            list(ex.map(validate, ids(args)))
    elif cmd == "detect":
        for i in ids(args):
            detect(i, tier, checks)


if __name__ == "__main__":
    main()
