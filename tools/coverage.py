#!/usr/bin/env python3
"""Which lines of /repo's library and tools do the workloads of the checks reach?

usage: tools/coverage.py [quick|thorough] [ID ...]        (default: quick, all twenty)

Every named check is run once with VERIF_COV=1 (lib/build.py then adds --coverage to every build), its build
directories are kept under a scratch root, gcov is run on every object directory, and the per-line execution
counts are merged over all builds.  Output: per file covered/total lines and the list of library lines no
workload reached (written to coverage/uncovered.txt and coverage/summary.json).  This is a diagnostic for the
workloads ("a monitor says nothing about paths the workload never drives"), not a check: it has no verdict.
Counters of processes that die in abort() are lost, so the figures are lower bounds.
"""
import glob, gzip, json, os, shutil, subprocess, sys

V = os.path.dirname(os.path.dirname(os.path.abspath(__file__)))
ROOT = "/var/tmp/mtbl-cov"
REPO = os.environ.get("VERIF_REPO", "/repo")


def main():
    args = sys.argv[1:]
    tier = "quick"
    if args and args[0] in ("quick", "thorough"):
        tier = args.pop(0)
    ids = args or ["C%02d" % i for i in range(1, 21)]
    shutil.rmtree(ROOT, ignore_errors=True)
    os.makedirs(ROOT)
    env = dict(os.environ, VERIF_COV="1", VERIF_KEEP_BUILD="1", VERIF_BUILD_ROOT=ROOT + "/build",
               VERIF_EVIDENCE_DIR=ROOT + "/evidence", VERIF_REPLAY_DIR=ROOT + "/replays")
    for i in ids:
        r = subprocess.run([os.path.join(V, "check"), i, tier], env=env, stdout=subprocess.PIPE, stderr=subprocess.STDOUT, text=True)
        print(i, "rc=%d" % r.returncode, r.stdout.strip().splitlines()[-1][:160] if r.stdout.strip() else "")
    lines = {}      # (file, line) -> count
    funcs = {}      # (file, function) -> count
    for d in sorted(set(os.path.dirname(p) for p in glob.glob(ROOT + "/build/**/*.gcda", recursive=True))):
        gcdas = glob.glob(d + "/*.gcda")
        subprocess.run(["gcov", "-j", "-o", d] + gcdas, cwd=d, stdout=subprocess.DEVNULL, stderr=subprocess.DEVNULL)
        for gz in glob.glob(d + "/*.gcov.json.gz"):
            try:
                j = json.load(gzip.open(gz))
            except Exception:
                continue
            for f in j.get("files", []):
                fn = os.path.normpath(os.path.join(d, f["file"])) if not os.path.isabs(f["file"]) else f["file"]
                if not fn.startswith(REPO + "/"):
                    continue
                rel = fn[len(REPO) + 1:]
                if not (rel.startswith("mtbl/") or rel.startswith("libmy/") or rel.startswith("src/")):
                    continue
                for ln in f.get("lines", []):
                    k = (rel, ln["line_number"])
                    lines[k] = lines.get(k, 0) + ln["count"]
                for fu in f.get("functions", []):
                    k = (rel, fu["name"])
                    funcs[k] = funcs.get(k, 0) + fu["execution_count"]
    per = {}
    for (f, l), c in lines.items():
        t = per.setdefault(f, [0, 0])
        t[1] += 1
        if c:
            t[0] += 1
    out = os.path.join(V, "coverage")
    os.makedirs(out, exist_ok=True)
    tot = [sum(v[0] for v in per.values()), sum(v[1] for v in per.values())]
    summary = {"tier": tier, "checks": ids, "lines_covered": tot[0], "lines_total": tot[1],
               "files": {f: {"covered": v[0], "total": v[1]} for f, v in sorted(per.items())},
               "functions_never_called": sorted("%s:%s" % k for k, c in funcs.items() if c == 0)}
    json.dump(summary, open(os.path.join(out, "summary.json"), "w"), indent=1)
    with open(os.path.join(out, "uncovered.txt"), "w") as fh:
        for f in sorted(per):
            miss = sorted(l for (ff, l), c in lines.items() if ff == f and c == 0)
            src = open(os.path.join(REPO, f), errors="replace").read().splitlines()
            fh.write("== %s  %d/%d lines\n" % (f, per[f][0], per[f][1]))
            for l in miss:
                fh.write("%5d  %s\n" % (l, src[l - 1] if l - 1 < len(src) else ""))
    print("lines covered: %d / %d (%.1f%%)" % (tot[0], tot[1], 100.0 * tot[0] / max(1, tot[1])))
    for f, v in sorted(per.items()):
        print("  %-28s %4d / %4d" % (f, v[0], v[1]))
    print("functions never called:", ", ".join(summary["functions_never_called"]) or "none")
    shutil.rmtree(ROOT, ignore_errors=True)


if __name__ == "__main__":
    main()
