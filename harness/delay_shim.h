/* Delay injection around the library's pthread synchronisation calls (ld --wrap): random yields /
 * micro-sleeps before and after each lock / unlock / wait / signal.  Adds no synchronisation of its own
 * (thread-local PRNG, no shared state), so it cannot hide or create happens-before edges. */
#ifndef VERIF_DELAY_SHIM_H
#define VERIF_DELAY_SHIM_H
#include <pthread.h>
#include <sched.h>
#include <stdint.h>
#include <unistd.h>

int __real_pthread_mutex_lock(pthread_mutex_t *);
int __real_pthread_mutex_unlock(pthread_mutex_t *);
int __real_pthread_cond_wait(pthread_cond_t *, pthread_mutex_t *);
int __real_pthread_cond_signal(pthread_cond_t *);

static int g_delay_permille = 0;           /* set by the harness before threads start */
static uint64_t g_delay_seed = 1;
static __thread uint64_t tl_rng;
static __thread uint64_t tl_points;

static inline uint64_t tl_next(void)
{
	if (!tl_rng) tl_rng = (g_delay_seed * 0x9E3779B97F4A7C15ULL) ^ (uint64_t)(uintptr_t)&tl_rng ^ 0x632BE59BD9B4E019ULL;
	tl_rng ^= tl_rng << 13; tl_rng ^= tl_rng >> 7; tl_rng ^= tl_rng << 17;
	return tl_rng;
}
static inline void maybe_delay(void)
{
	tl_points++;
	if (!g_delay_permille) return;
	uint64_t x = tl_next();
	if (x % 1000 < (uint64_t)g_delay_permille) {
		if ((x >> 20) & 1) sched_yield(); else usleep((x >> 24) % 200);
	}
}
/* after the injected delay and before the real call, the object is read from instrumented code: a call on a freed mutex / condition variable
 * (glibc itself is not instrumented) becomes an ASan / TSan report with the caller's stack */
static inline void dl_touch(const volatile void *obj, size_t n) { const volatile char *p = obj; (void)p[0]; (void)p[n - 1]; }
int __wrap_pthread_mutex_lock(pthread_mutex_t *m) { maybe_delay(); dl_touch(m, sizeof *m); int r = __real_pthread_mutex_lock(m); maybe_delay(); return r; }
int __wrap_pthread_mutex_unlock(pthread_mutex_t *m) { maybe_delay(); dl_touch(m, sizeof *m); int r = __real_pthread_mutex_unlock(m); maybe_delay(); return r; }
int __wrap_pthread_cond_wait(pthread_cond_t *c, pthread_mutex_t *m) { maybe_delay(); dl_touch(c, sizeof *c); int r = __real_pthread_cond_wait(c, m); maybe_delay(); return r; }
int __wrap_pthread_cond_signal(pthread_cond_t *c) { maybe_delay(); dl_touch(c, sizeof *c); int r = __real_pthread_cond_signal(c); maybe_delay(); return r; }
#define DELAY_WRAPS "pthread_mutex_lock", "pthread_mutex_unlock", "pthread_cond_wait", "pthread_cond_signal"
#endif
