/* C04 / C05: mergers over generated source families, against the merged reference model.
 *   c04    full iteration in the four modes {merge fn, none, none+dupsort, failing merge fn}; mtbl_source_write path
 *   c04t   the real mtbl_merge tool with the multiset-merge DSO
 *   c05l   derived lookups (get / get_prefix / get_range) on the merger source
 *   c05x   all (position, target) pairs on small families
 *   c05h   random long seek/next histories
 */
#include "family.h"
#include "refdec.h"
#include "suites.h"

static struct mtbl_merger *mk_merger(family_t *f, mclos_t *mc, int mode)
{
	struct mtbl_merger_options *mo = mtbl_merger_options_init();
	if (mode == 0 || mode == 3) mtbl_merger_options_set_merge_func(mo, ms_merge_cb, mc);
	if (mode == 2) mtbl_merger_options_set_dupsort_func(mo, dupsort_bytes, DUPSORT_CLOS);
	struct mtbl_merger *m = mtbl_merger_init(mo);
	mtbl_merger_options_destroy(&mo);
	/* sources added in a random rotation is not needed: order must not matter; add in index order */
	for (int s = 0; s < f->nsrc; s++) mtbl_merger_add_source(m, family_source(f, s));
	return m;
}
static const char *MODE_NAME[] = {"merge-function", "no-merge-function", "no-merge-function+dupsort", "failing-merge-function"};

static void case_c04(const args_t *a, long c, rng_t *r)
{
	g_prop = "C04";
	family_t f;
	int mode = rndn(r, 8); mode = mode < 4 ? 0 : mode < 5 ? 1 : mode < 7 ? 2 : 3;
	family_gen(r, &f, a->workdir, c, 2, 0, mode == 2);
	family_stats(&f);
	statf(1, "c04.mode.%s", MODE_NAME[mode]);
	mclos_t mc; memset(&mc, 0, sizeof mc); mc.universe = &f.universe;
	size_t fail_idx = (size_t)-1;
	if (mode == 3) {
		/* a key that needs merging */
		size_t cand = 0, n = 0;
		for (size_t i = 0; i < f.flat.n; i++) if (i + 1 < f.flat.n && key_cmp(f.flat.e[i].k.p, f.flat.e[i].k.n, f.flat.e[i + 1].k.p, f.flat.e[i + 1].k.n) == 0) { if (rndn(r, ++n) == 0) cand = i; }
		if (n) {
			mc.have_fail = 1; mc.fail_key = f.flat.e[cand].k.p; mc.fail_len = f.flat.e[cand].k.n; fail_idx = model_lb(&f.merged, mc.fail_key, mc.fail_len);
			/* multiplicity of that key: fail on a later fold when there is one (an earlier fold of the same key succeeded) */
			size_t mult = 0; for (size_t i = 0; i < f.flat.n; i++) if (key_cmp(f.flat.e[i].k.p, f.flat.e[i].k.n, mc.fail_key, mc.fail_len) == 0) mult++;
			if (mult >= 3 && rndn(r, 2)) { mc.fail_on_fold = 2 + (int)rndn(r, (uint32_t)mult - 2); STAT("c04.failing_callback_on_later_fold"); }
			mc.fail_untouched = rndn(r, 2);
		}
		else mode = 0;
	}
	struct mtbl_merger *m = mk_merger(&f, &mc, mode);
	const struct mtbl_source *src = mtbl_merger_source(m);
	if (want_sample()) sample("c04: %d sources (%s), %zu distinct keys, max multiplicity %zu, mode %s", f.nsrc, "tables and user-defined sources", f.merged.n, f.max_mult, MODE_NAME[mode]);
	if (mode == 0 || mode == 2) {
		miter_t mi;
		miter_open(&mi, src, mode == 0 ? &f.merged : &f.flat, IK_ITER, NULL, 0, NULL, 0);
		size_t n = miter_drain(&mi, mode == 0 ? "merge" : "dupsort");
		miter_close(&mi);
		stat_add("c04.entries_compared", n);
		if (mode == 0) { stat_add("c04.merge_callbacks", mc.calls); stat_add("c04.merges_needed", f.merges_needed); if (mc.calls == f.merges_needed) STAT("c04.cases_callbacks_equal_needed"); }
	} else if (mode == 1) {
		/* every source entry emitted, ascending key order, any order among equal keys: compare key groups as multisets */
		struct mtbl_iter *it = mtbl_source_iter(src);
		const uint8_t *k, *v; size_t lk, lv, i = 0; int bad = 0;
		model_t got; model_init(&got);
		while (mtbl_iter_next(it, &k, &lk, &v, &lv) == mtbl_res_success) { model_push(&got, k, lk, v, lv); if (got.n > f.flat.n + 4) break; }
		mtbl_iter_destroy(&it);
		for (i = 1; i < got.n; i++) if (key_cmp(got.e[i - 1].k.p, got.e[i - 1].k.n, got.e[i].k.p, got.e[i].k.n) > 0) { viol("C04/no-merge-output-not-ascending", "entry %zu key %s follows %s", i, hexs(got.e[i].k.p, got.e[i].k.n), hexs(got.e[i - 1].k.p, got.e[i - 1].k.n)); bad = 1; break; }
		if (!bad) {
			if (got.n > 1) qsort(got.e, got.n, sizeof(ent_t), flat_cmp);
			if (got.n != f.flat.n) viol("C04/no-merge-entry-count", "merger without merge function emitted %zu entries, sources hold %zu", got.n, f.flat.n);
			else for (i = 0; i < got.n; i++) if (flat_cmp(&got.e[i], &f.flat.e[i]) != 0) { viol("C04/no-merge-entry-set-differs", "emitted entries differ from the union of source entries near key %s", hexs(f.flat.e[i].k.p, f.flat.e[i].k.n)); break; }
		}
		stat_add("c04.entries_compared", got.n);
		model_free(&got);
	} else {
		/* failing merge callback: keys before it are correct, the call that would produce it fails */
		miter_t mi;
		miter_open(&mi, src, &f.merged, IK_ITER, NULL, 0, NULL, 0);
		for (size_t i = 0; i < fail_idx; i++) if (!miter_next(&mi, "before-failing-key")) break;
		const uint8_t *k, *v; size_t lk, lv;
		miter_check_stable(&mi, "failing-merge"); miter_forget(&mi);
		mtbl_res res = mtbl_iter_next(mi.it, &k, &lk, &v, &lv);
		if (res == mtbl_res_success) viol("C04/merge-failure-not-surfaced", "merge function returned failure for key %s but next returned success (key %s)", hexs(mc.fail_key, mc.fail_len), hexs(k, lk));
		else if (!mc.failures_returned) viol("C04/merge-failure-not-surfaced", "next failed at key index %zu before the merge function was consulted for the failing key", fail_idx);
		if (res != mtbl_res_success) {
			/* failure is sticky until the next seek: no partially folded entry may leak out */
			if (mtbl_iter_next(mi.it, &k, &lk, &v, &lv) == mtbl_res_success)
				viol("C04/entry-returned-after-merge-failure-without-seek", "after the merge function failed for key %s the next call returned key %s with %zu value bytes", hexs(mc.fail_key, mc.fail_len), hexs(k, lk), lv);
			/* the application retries: one-off failure over, seek back to the key -> full fold */
			mc.have_fail = 0; mc.folds_of_fail_key = 0;
			mi.failed = true;
			miter_seek(&mi, f.merged.e[fail_idx].k.p, f.merged.e[fail_idx].k.n, "retry-after-merge-failure");
			miter_next(&mi, "retry-after-merge-failure"); miter_next(&mi, "retry-after-merge-failure");
			STAT("c04.retry_after_merge_failure");
		}
		miter_close(&mi);
		STAT("c04.failing_callback_cases");
	}
	if (mc.operand_errors) viol("C04/merge-callback-got-foreign-or-stale-operand", "%" PRIu64 " merge callback operands were not id lists of the key being merged", mc.operand_errors);
	if (g_dupsort_wrong_clos) { viol("C04/dupsort-called-with-wrong-closure", "the dupsort function was called %" PRIu64 " times with a closure other than the one it was registered with", g_dupsort_wrong_clos); g_dupsort_wrong_clos = 0; }
	/* mtbl_source_write as an additional observation path (merge mode: output is strictly increasing) */
	if (mode == 0 && rndp(r, 400)) {
		char out[4096]; snprintf(out, sizeof out, "%s/c04-out-%ld.mtbl", a->workdir, c); unlink(out);
		wcfg_t cfg; gen_wcfg(r, &cfg); cfg.prefix_len = 0; cfg.use_fd = 0; cfg.pool = -1; if (cfg.comp == 5 && cfg.level > 12) cfg.level = 3;
		struct mtbl_writer_options *wo = wcfg_options(&cfg, NULL);
		struct mtbl_writer *w = mtbl_writer_init(out, wo);
		mtbl_writer_options_destroy(&wo);
		mtbl_res res = mtbl_source_write(src, w);
		mtbl_writer_destroy(&w);
		if (res != mtbl_res_success && f.merged.n) viol("C04/source_write-failed", "mtbl_source_write of the merger source failed");
		struct mtbl_reader *rd = mtbl_reader_init(out, NULL);
		if (rd) { miter_t mi; miter_open(&mi, mtbl_reader_source(rd), &f.merged, IK_ITER, NULL, 0, NULL, 0); miter_drain(&mi, "source_write-readback"); miter_close(&mi); mtbl_reader_destroy(&rd); }
		else viol("C04/source_write-output-unreadable", "output of mtbl_source_write does not open");
		unlink(out);
		STAT("c04.source_write_cases");
	}
	for (int s = 0; s < f.nsrc; s++) if (f.is_user[s] && f.usrc[s].iters_open) STAT("c04.user_iters_left_open");
	mtbl_merger_destroy(&m);
	STAT("c04.cases");
	case_hash(family_hash(&f) ^ mode);
	family_free(&f);
}

/* the real tool */
static void case_c04t(const args_t *a, long c, rng_t *r)
{
	g_prop = "C04";
	family_t f;
	family_gen(r, &f, a->workdir, c, 0, 0, 0);
	if (f.nsrc == 0) { family_free(&f); return; }
	family_stats(&f);
	char out[4096], cmd[16384]; snprintf(out, sizeof out, "%s/c04t-out-%ld.mtbl", a->workdir, c); unlink(out);
	static const char *CT[] = {"none", "snappy", "zlib", "lz4", "lz4hc", "zstd"};
	int comp = rndn(r, 6), threads = rndn(r, 2) ? 0 : 1 + rndn(r, 3), o;
	o = snprintf(cmd, sizeof cmd, "MTBL_MERGE_DSO=%s MTBL_MERGE_FUNC_PREFIX=vmerge %s -c %s -t %d", a->aux2, a->aux, CT[comp], threads);
	if (rndn(r, 2)) o += snprintf(cmd + o, sizeof cmd - o, " -b %d", rndn(r, 2) ? 1024 : 4096);
	if (rndn(r, 2)) o += snprintf(cmd + o, sizeof cmd - o, " -l %d", (int)rndn(r, 12) - 1);
	for (int s = 0; s < f.nsrc; s++) o += snprintf(cmd + o, sizeof cmd - o, " %s", f.path[s]);
	snprintf(cmd + o, sizeof cmd - o, " %s >/dev/null 2>%s.err", out, out);
	int st = system(cmd);
	if (st != 0) {
		char ep[4200]; snprintf(ep, sizeof ep, "%s.err", out); size_t el; uint8_t *eb = read_file(ep, &el);
		viol("C04/mtbl_merge-tool-failed", "mtbl_merge exit status %d: %.300s", st, eb ? (char *)eb + (el > 300 ? el - 300 : 0) : "");
		free(eb);
	} else {
		size_t len; uint8_t *data = read_file(out, &len);
		rd_file_t rf;
		if (!data || rd_parse(data, len, 0, &rf) != 0) viol("C04/mtbl_merge-output-undecodable", "independent decoder rejects the tool's output: %s", data ? rf.err : "missing");
		else {
			size_t gi = 0; int bad = 0;
			for (size_t b = 0; b < rf.n_blocks && !bad; b++)
				for (size_t j = 0; j < rf.blocks[b].n_ents; j++, gi++) {
					const rd_ent_t *e = &rf.blocks[b].ents[j];
					if (gi >= f.merged.n || key_cmp(e->k.p, e->k.n, f.merged.e[gi].k.p, f.merged.e[gi].k.n) != 0 || e->vlen != f.merged.e[gi].v.n || (e->vlen && memcmp(e->v, f.merged.e[gi].v.p, e->vlen) != 0)) {
						viol("C04/mtbl_merge-output-differs", "tool output entry %zu (key %s, %u value bytes) differs from the merged model (%s, %zu bytes)", gi, hexs(e->k.p, e->k.n), e->vlen, gi < f.merged.n ? hexs(f.merged.e[gi].k.p, f.merged.e[gi].k.n) : "<end>", gi < f.merged.n ? f.merged.e[gi].v.n : 0);
						bad = 1; break;
					}
				}
			if (!bad && gi != f.merged.n) viol("C04/mtbl_merge-output-differs", "tool output holds %zu entries, merged model %zu", gi, f.merged.n);
			stat_add("c04t.entries_compared", gi);
		}
		if (data) rd_free(&rf);
		free(data);
	}
	char ep[4200]; snprintf(ep, sizeof ep, "%s.err", out); unlink(ep); unlink(out);
	STAT("c04t.tool_runs");
	statf(1, "c04t.threads.%d", threads);
	if (want_sample()) sample("c04t: mtbl_merge -c %s -t %d over %d tables, %zu distinct keys (max multiplicity %zu), output decoded independently", CT[comp], threads, f.nsrc, f.merged.n, f.max_mult);
	case_hash(family_hash(&f));
	family_free(&f);
}

/* ---- C05 */
static mclos_t *g_c05_mc; static uint8_t g_failkey[4096]; static uint64_t g_fail_before;
static int arm_merge_failure(const uint8_t *key, size_t lk)
{
	if (!g_c05_mc) return 0;
	if (!key) { g_c05_mc->have_fail = 0; return 1; }
	if (lk > sizeof g_failkey) return 0;
	memcpy(g_failkey, key, lk);
	g_c05_mc->fail_key = g_failkey; g_c05_mc->fail_len = lk; g_c05_mc->have_fail = 1;
	g_fail_before = g_c05_mc->failures_returned;
	return 1;
}
static int merge_failure_fired(void) { int f = g_c05_mc->failures_returned != g_fail_before; g_c05_mc->have_fail = 0; return f; }

static void c05_common(const args_t *a, long c, rng_t *r, int which)
{
	g_prop = "C05";
	family_t f;
	int dupsort = rndn(r, 4) == 0;      /* 3/4 with the merge function, 1/4 dupsort (deterministic order among equal keys) */
	family_gen(r, &f, a->workdir, c, 2, which == 1, dupsort);
	family_stats(&f);
	mclos_t mc; memset(&mc, 0, sizeof mc); mc.universe = &f.universe;
	struct mtbl_merger *m = mk_merger(&f, &mc, dupsort ? 2 : 0);
	const struct mtbl_source *src = mtbl_merger_source(m);
	const model_t *model = dupsort ? &f.flat : &f.merged;
	statf(1, "c05.mode.%s", dupsort ? "dupsort" : "merge-function");
	if (which == 0) {
		qset_t qs; memset(&qs, 0, sizeof qs);
		size_t stride = f.universe.n > 120 ? f.universe.n / 120 : 1;
		for (size_t i = 0; i < f.universe.n; i += stride) qset_add_neighbours(&qs, f.universe.e[i].k.p, f.universe.e[i].k.n, 4);
		/* first/last key of every source: where sources run dry */
		for (int s = 0; s < f.nsrc; s++) if (f.src[s].n) { qset_add_neighbours(&qs, f.src[s].e[0].k.p, f.src[s].e[0].k.n, 2); qset_add_neighbours(&qs, f.src[s].e[f.src[s].n - 1].k.p, f.src[s].e[f.src[s].n - 1].k.n, 2); }
		qset_add(&qs, (const uint8_t *)"", 0);
		{ uint8_t hi[3] = {0xff, 0xff, 0xff}; qset_add(&qs, hi, 3); }
		qset_finish(&qs);
		suite_lookups(src, model, &qs, NULL, NULL, r, 30, 150);
		stat_add("c05.queries", qs.n);
		if (want_sample()) sample("c05l: %d sources, %zu model entries (%s): %zu derived queries x {get,get_prefix} + ranges on the merger source", f.nsrc, model->n, dupsort ? "dupsort" : "merge function", qs.n);
		qset_free(&qs);
	} else if (which == 1) {
		if (model->n > 30) { for (int i = 0; i < 3; i++) suite_history(src, model, r, 100); STAT("c05x.family_too_large_for_product_ran_histories"); }
		else if (model->n >= 3) {
			bspec_t b[5]; size_t nb = 0; memset(b, 0, sizeof b);
			b[nb++].kind = IK_ITER;
			{ size_t lo = model->n / 4, hi = model->n - 1 - model->n / 4; b[nb].kind = IK_RANGE; b[nb].a = bs_dup(model->e[lo].k.p, model->e[lo].k.n); b[nb].b = bs_dup(model->e[hi].k.p, model->e[hi].k.n); nb++; }
			{ const ent_t *e = &model->e[model->n / 2]; b[nb].kind = IK_PREFIX; b[nb].a = bs_dup(e->k.p, e->k.n ? 1 : 0); nb++; }
			{ const ent_t *e = &model->e[model->n / 3]; b[nb].kind = IK_GET; b[nb].a = bs_dup(e->k.p, e->k.n); nb++; }
			suite_seek_product(src, model, NULL, b, nb, r);
			for (size_t i = 0; i < nb; i++) bspec_free(&b[i]);
			STAT("c05x.families");
			if (want_sample()) sample("c05x: %d sources, %zu model entries, max multiplicity %zu (%s): full (position,target) product for %zu bounds", f.nsrc, model->n, f.max_mult, dupsort ? "dupsort" : "merge function", nb);
		}
	} else {
		if (!dupsort) { g_c05_mc = &mc; g_arm_merge_failure = arm_merge_failure; g_merge_failure_fired = merge_failure_fired; }
		for (int i = 0; i < 3; i++) suite_history(src, model, r, 40 + rndn(r, 161));
		g_arm_merge_failure = NULL; g_c05_mc = NULL;
		if (want_sample()) sample("c05h: %d sources, %zu model entries (%s): 3 histories of 40..200 ops on up to 4 interleaved merger iterators", f.nsrc, model->n, dupsort ? "dupsort" : "merge function");
	}
	if (mc.operand_errors) viol("C05/merge-callback-got-foreign-or-stale-operand", "%" PRIu64 " merge callback operands were not id lists of the key being merged", mc.operand_errors);
	if (g_dupsort_wrong_clos) { viol("C05/dupsort-called-with-wrong-closure", "the dupsort function was called %" PRIu64 " times with a foreign closure", g_dupsort_wrong_clos); g_dupsort_wrong_clos = 0; }
	mtbl_merger_destroy(&m);
	STAT("c05.cases");
	case_hash(family_hash(&f) ^ (uint64_t)which << 60 ^ dupsort);
	family_free(&f);
}
static void case_c05l(const args_t *a, long c, rng_t *r) { c05_common(a, c, r, 0); }
static void case_c05x(const args_t *a, long c, rng_t *r) { c05_common(a, c, r, 1); }
static void case_c05h(const args_t *a, long c, rng_t *r) { c05_common(a, c, r, 2); }

int main(int argc, char **argv)
{
	args_t a;
	parse_args(argc, argv, &a);
	case_fn f = NULL;
	if (!strcmp(a.sub, "c04")) f = case_c04;
	else if (!strcmp(a.sub, "c04t")) f = case_c04t;
	else if (!strcmp(a.sub, "c05l")) f = case_c05l;
	else if (!strcmp(a.sub, "c05x")) f = case_c05x;
	else if (!strcmp(a.sub, "c05h")) f = case_c05h;
	else return 98;
	return run_cases(&a, f);
}
