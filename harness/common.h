/* Shared infrastructure of the mtbl verification harnesses: PRNG, byte strings, reference
 * model (own comparator, never the library's), statistics / violation / sample reporting,
 * argument parsing and the per-case driver loop.
 *
 * Output protocol (stdout, one record per line), consumed by lib/runner.py:
 *   S {json counters}            once at normal exit
 *   V {"sig":..,"case":..,"msg":..}   one per violation
 *   X {json}                     a few sample cases
 *   H <hex> ...                  hashes of distinct non-trivial cases
 */
#ifndef VERIF_COMMON_H
#define VERIF_COMMON_H

#include <assert.h>
#include <errno.h>
#include <fcntl.h>
#include <inttypes.h>
#include <limits.h>
#include <signal.h>
#include <stdarg.h>
#include <stdbool.h>
#include <stdint.h>
#include <stdio.h>
#include <stdlib.h>
#include <string.h>
#include <unistd.h>
#include <sys/stat.h>
#include <sys/types.h>
#include <sys/wait.h>
#ifdef VERIF_COV
/* coverage builds (tools/coverage.py): forked children that leave through _exit() still flush their counters */
extern void __gcov_dump(void);
#define _exit(x) do { __gcov_dump(); (_exit)(x); } while (0)
#endif

/* ------------------------------------------------------------------ rng */
typedef struct { uint64_t s[4]; } rng_t;

static inline uint64_t splitmix64(uint64_t *x)
{
	uint64_t z = (*x += 0x9e3779b97f4a7c15ULL);
	z = (z ^ (z >> 30)) * 0xbf58476d1ce4e5b9ULL;
	z = (z ^ (z >> 27)) * 0x94d049bb133111ebULL;
	return z ^ (z >> 31);
}
static inline void rng_init(rng_t *r, uint64_t seed, uint64_t stream)
{
	uint64_t x = seed * 0x2545F4914F6CDD1DULL + stream * 0x9E3779B97F4A7C15ULL + 0x1234567;
	for (int i = 0; i < 4; i++) r->s[i] = splitmix64(&x);
}
static inline uint64_t rotl64(uint64_t x, int k) { return (x << k) | (x >> (64 - k)); }
static inline uint64_t rnd64(rng_t *r)
{
	uint64_t *s = r->s, result = rotl64(s[1] * 5, 7) * 9, t = s[1] << 17;
	s[2] ^= s[0]; s[3] ^= s[1]; s[1] ^= s[2]; s[0] ^= s[3]; s[2] ^= t; s[3] = rotl64(s[3], 45);
	return result;
}
static inline uint32_t rndn(rng_t *r, uint32_t n) { return n ? (uint32_t)((rnd64(r) >> 11) % n) : 0; }
static inline uint32_t rnd_range(rng_t *r, uint32_t lo, uint32_t hi) { return lo + rndn(r, hi - lo + 1); }
static inline bool rndp(rng_t *r, unsigned permille) { return rndn(r, 1000) < permille; }
#define PICK(r, arr) ((arr)[rndn((r), sizeof(arr) / sizeof((arr)[0]))])

static inline uint64_t fnv64(const void *p, size_t n, uint64_t h)
{
	const uint8_t *b = p;
	if (!h) h = 0xcbf29ce484222325ULL;
	for (size_t i = 0; i < n; i++) { h ^= b[i]; h *= 0x100000001b3ULL; }
	return h;
}

/* ------------------------------------------------------------------ byte strings */
typedef struct { uint8_t *p; size_t n; } bs_t;

static inline void *xmalloc(size_t n) { void *p = malloc(n ? n : 1); if (!p) { fprintf(stderr, "harness: oom\n"); _exit(97); } return p; }
static inline void *xrealloc(void *q, size_t n) { void *p = realloc(q, n ? n : 1); if (!p) { fprintf(stderr, "harness: oom\n"); _exit(97); } return p; }
static inline void *xcalloc(size_t a, size_t b) { void *p = calloc(a ? a : 1, b ? b : 1); if (!p) { fprintf(stderr, "harness: oom\n"); _exit(97); } return p; }
static inline bs_t bs_dup(const uint8_t *p, size_t n) { bs_t b; b.p = xmalloc(n); b.n = n; if (n) memcpy(b.p, p, n); return b; }
static inline void bs_free(bs_t *b) { free(b->p); b->p = NULL; b->n = 0; }

/* The specified order: unsigned bytewise, a proper prefix sorts first.  Re-implemented
 * here byte by byte; the library's bytes_compare/memcmp is never used by an oracle. */
static inline int key_cmp(const uint8_t *a, size_t la, const uint8_t *b, size_t lb)
{
	size_t i = 0;
	while (i < la && i < lb) {
		unsigned x = a[i], y = b[i];
		if (x != y) return x < y ? -1 : 1;
		i++;
	}
	if (la == lb) return 0;
	return la < lb ? -1 : 1;
}
static inline bool has_prefix(const uint8_t *k, size_t lk, const uint8_t *p, size_t lp)
{
	if (lp > lk) return false;
	for (size_t i = 0; i < lp; i++) if (k[i] != p[i]) return false;
	return true;
}
static inline size_t lcp(const uint8_t *a, size_t la, const uint8_t *b, size_t lb)
{
	size_t i = 0;
	while (i < la && i < lb && a[i] == b[i]) i++;
	return i;
}

/* hex for messages (truncated) */
static inline const char *hexs(const uint8_t *p, size_t n)
{
	static char bufs[8][140];
	static int which;
	char *o = bufs[which++ & 7];
	size_t m = n > 48 ? 48 : n, j = 0;
	for (size_t i = 0; i < m; i++) j += sprintf(o + j, "%02x", p[i]);
	if (n > m) j += sprintf(o + j, "..(%zu)", n);
	if (n == 0) strcpy(o, "<empty>");
	return o;
}

/* ------------------------------------------------------------------ model */
typedef struct { bs_t k, v; } ent_t;
typedef struct { ent_t *e; size_t n, cap; } model_t;

static inline void model_init(model_t *m) { m->e = NULL; m->n = m->cap = 0; }
static inline void model_push(model_t *m, const uint8_t *k, size_t lk, const uint8_t *v, size_t lv)
{
	if (m->n == m->cap) { m->cap = m->cap ? m->cap * 2 : 64; m->e = xrealloc(m->e, m->cap * sizeof(ent_t)); }
	m->e[m->n].k = bs_dup(k, lk);
	m->e[m->n].v = bs_dup(v, lv);
	m->n++;
}
static inline void model_free(model_t *m)
{
	for (size_t i = 0; i < m->n; i++) { free(m->e[i].k.p); free(m->e[i].v.p); }
	free(m->e); model_init(m);
}
/* first index whose key >= k (binary search under key_cmp) */
static inline size_t model_lb(const model_t *m, const uint8_t *k, size_t lk)
{
	size_t lo = 0, hi = m->n;
	while (lo < hi) {
		size_t mid = lo + (hi - lo) / 2;
		if (key_cmp(m->e[mid].k.p, m->e[mid].k.n, k, lk) < 0) lo = mid + 1; else hi = mid;
	}
	return lo;
}
static int ent_cmp_qsort(const void *a, const void *b)
{
	const ent_t *x = a, *y = b;
	return key_cmp(x->k.p, x->k.n, y->k.p, y->k.n);
}
static inline void model_sort(model_t *m) { if (m->n > 1) qsort(m->e, m->n, sizeof(ent_t), ent_cmp_qsort); }
/* remove entries with duplicate keys (after sort), keeping the first */
static inline void model_dedupe(model_t *m)
{
	size_t w = 0;
	for (size_t i = 0; i < m->n; i++) {
		if (w && key_cmp(m->e[w - 1].k.p, m->e[w - 1].k.n, m->e[i].k.p, m->e[i].k.n) == 0) {
			free(m->e[i].k.p); free(m->e[i].v.p);
			continue;
		}
		m->e[w++] = m->e[i];
	}
	m->n = w;
}

/* ------------------------------------------------------------------ reporting */
#define MAXSTAT 768
static struct { const char *name; uint64_t v; } g_stats[MAXSTAT];
static int g_nstats;
static long g_case = -1;          /* current case index */
static uint64_t g_nviol;
static int g_nsamples, g_maxsamples = 3;
static int g_verbose;
static uint64_t *g_hashes; static size_t g_nh, g_caph;

static inline void stat_add(const char *name, uint64_t n)
{
	for (int i = 0; i < g_nstats; i++)
		if (g_stats[i].name == name || strcmp(g_stats[i].name, name) == 0) { g_stats[i].v += n; return; }
	if (g_nstats < MAXSTAT) { g_stats[g_nstats].name = strdup(name); g_stats[g_nstats].v = n; g_nstats++; }
}
static inline void stat_max(const char *name, uint64_t n)
{
	for (int i = 0; i < g_nstats; i++)
		if (strcmp(g_stats[i].name, name) == 0) { if (n > g_stats[i].v) g_stats[i].v = n; return; }
	stat_add(name, n);
}
#define STAT(name) stat_add((name), 1)
static inline void statf(uint64_t n, const char *fmt, ...)
{
	char b[160]; va_list ap; va_start(ap, fmt); vsnprintf(b, sizeof b, fmt, ap); va_end(ap);
	stat_add(b, n);
}
static inline void json_str(FILE *f, const char *s)
{
	fputc('"', f);
	for (; *s; s++) {
		unsigned char c = *s;
		if (c == '"' || c == '\\') { fputc('\\', f); fputc(c, f); }
		else if (c < 0x20 || c >= 0x7f) fprintf(f, "\\u%04x", c);
		else fputc(c, f);
	}
	fputc('"', f);
}
__attribute__((format(printf, 2, 3)))
static inline void viol(const char *sig, const char *fmt, ...)
{
	char b[1024]; va_list ap; va_start(ap, fmt); vsnprintf(b, sizeof b, fmt, ap); va_end(ap);
	g_nviol++;
	if (g_nviol > 50) return; /* enough witnesses from one process */
	printf("V {\"sig\":"); json_str(stdout, sig);
	printf(",\"case\":%ld,\"msg\":", g_case); json_str(stdout, b); printf("}\n");
	fflush(stdout);
	if (g_verbose) fprintf(stderr, "VIOLATION %s: %s\n", sig, b);
}
__attribute__((format(printf, 1, 2)))
static inline void sample(const char *fmt, ...)
{
	if (g_nsamples >= g_maxsamples) return;
	g_nsamples++;
	char b[1500]; va_list ap; va_start(ap, fmt); vsnprintf(b, sizeof b, fmt, ap); va_end(ap);
	printf("X {\"case\":%ld,\"desc\":", g_case); json_str(stdout, b); printf("}\n");
}
/* the oracle could not be applied (not a verdict about the library) */
__attribute__((format(printf, 1, 2)))
static inline void inconclusive(const char *fmt, ...)
{
	char b[600]; va_list ap; va_start(ap, fmt); vsnprintf(b, sizeof b, fmt, ap); va_end(ap);
	printf("I {\"case\":%ld,\"msg\":", g_case); json_str(stdout, b); printf("}\n");
	fflush(stdout);
}
static inline bool want_sample(void) { return g_nsamples < g_maxsamples; }
static inline void case_hash(uint64_t h)
{
	if (g_nh == g_caph) { g_caph = g_caph ? g_caph * 2 : 256; g_hashes = xrealloc(g_hashes, g_caph * 8); }
	g_hashes[g_nh++] = h;
}
static inline void report_finish(void)
{
	printf("S {");
	for (int i = 0; i < g_nstats; i++) { if (i) printf(","); json_str(stdout, g_stats[i].name); printf(":%" PRIu64, g_stats[i].v); }
	printf("}\n");
	for (size_t i = 0; i < g_nh; i += 64) {
		printf("H");
		for (size_t j = i; j < g_nh && j < i + 64; j++) printf(" %" PRIx64, g_hashes[j]);
		printf("\n");
	}
	fflush(stdout);
}
#define VLOG(...) do { if (g_verbose) fprintf(stderr, __VA_ARGS__); } while (0)

/* ------------------------------------------------------------------ args + driver */
typedef struct {
	const char *sub;
	uint64_t seed;
	long start, count;
	int thorough;
	const char *workdir;
	const char *progress;
	const char *aux;      /* harness-specific extra (path of a tool, ...) */
	const char *aux2;
	const char *aux3;
	long param;           /* harness-specific number */
} args_t;

static int g_progress_fd = -1;
static inline void progress_mark(long c)
{
	if (g_progress_fd >= 0) { char b[32]; int n = snprintf(b, sizeof b, "%-20ld\n", c); if (pwrite(g_progress_fd, b, n, 0) < 0) {} }
}
static inline void parse_args(int argc, char **argv, args_t *a)
{
	memset(a, 0, sizeof *a);
	a->sub = argc > 1 ? argv[1] : "";
	a->seed = 1; a->count = 1; a->workdir = "/var/tmp";
	for (int i = 2; i < argc; i++) {
		const char *o = argv[i], *v = i + 1 < argc ? argv[i + 1] : "";
		if (!strcmp(o, "--seed")) { a->seed = strtoull(v, 0, 0); i++; }
		else if (!strcmp(o, "--start")) { a->start = atol(v); i++; }
		else if (!strcmp(o, "--count")) { a->count = atol(v); i++; }
		else if (!strcmp(o, "--thorough")) a->thorough = 1;
		else if (!strcmp(o, "--verbose")) g_verbose = 1;
		else if (!strcmp(o, "--workdir")) { a->workdir = v; i++; }
		else if (!strcmp(o, "--progress")) { a->progress = v; i++; }
		else if (!strcmp(o, "--aux")) { a->aux = v; i++; }
		else if (!strcmp(o, "--aux2")) { a->aux2 = v; i++; }
		else if (!strcmp(o, "--aux3")) { a->aux3 = v; i++; }
		else if (!strcmp(o, "--param")) { a->param = atol(v); i++; }
		else if (!strcmp(o, "--samples")) { g_maxsamples = atoi(v); i++; }
		else { fprintf(stderr, "harness: unknown option %s\n", o); exit(98); }
	}
	int stdin_closed = fcntl(0, F_GETFD) == -1;      /* the runner starts some workers without descriptor 0 */
	if (a->progress) g_progress_fd = open(a->progress, O_WRONLY | O_CREAT, 0644);
	if (stdin_closed) {
		/* keep descriptor 0 free for the code under test: move our own file out of the way */
		if (g_progress_fd == 0) { g_progress_fd = fcntl(0, F_DUPFD, 10); close(0); }
		stat_add("process.started_with_fd0_closed", 1);
	}
	setvbuf(stdout, NULL, _IOFBF, 1 << 16);
}
/* per-case seed: independent of how cases are split over processes */
static inline void case_rng(rng_t *r, const args_t *a, long c)
{
	rng_init(r, a->seed ^ fnv64(a->sub, strlen(a->sub), 0), (uint64_t)c);
}
static const char *g_workdir = "/var/tmp";
typedef void (*case_fn)(const args_t *a, long c, rng_t *r);
static inline int run_cases(const args_t *a, case_fn fn)
{
	g_workdir = a->workdir;
	for (long c = a->start; c < a->start + a->count; c++) {
		rng_t r;
		g_case = c;
		progress_mark(c);
		case_rng(&r, a, c);
		fn(a, c, &r);
		STAT("cases");
	}
	g_case = -1;
	report_finish();
	return 0;
}

/* small file helpers */
static inline uint8_t *read_file(const char *path, size_t *len)
{
	int fd = open(path, O_RDONLY);
	if (fd < 0) return NULL;
	struct stat st; fstat(fd, &st);
	uint8_t *b = xmalloc(st.st_size + 1);
	size_t off = 0;
	while (off < (size_t)st.st_size) { ssize_t n = read(fd, b + off, st.st_size - off); if (n <= 0) break; off += n; }
	close(fd);
	*len = off;
	return b;
}
/* read-only view of a (possibly multi-GiB, sparse) file; release with unmap_file */
#include <sys/mman.h>
static inline uint8_t *map_file(const char *path, size_t *len)
{
	int fd = open(path, O_RDONLY);
	if (fd < 0) return NULL;
	struct stat st; fstat(fd, &st);
	*len = st.st_size;
	void *m = st.st_size ? mmap(NULL, st.st_size, PROT_READ, MAP_PRIVATE, fd, 0) : xmalloc(1);
	close(fd);
	return m == MAP_FAILED ? NULL : m;
}
static inline void unmap_file(uint8_t *p, size_t len) { if (!p) return; if (len) munmap(p, len); else free(p); }

static inline int write_file(const char *path, const void *p, size_t n)
{
	int fd = open(path, O_WRONLY | O_CREAT | O_TRUNC, 0644);
	if (fd < 0) return -1;
	const uint8_t *b = p; size_t off = 0;
	while (off < n) { ssize_t w = write(fd, b + off, n - off); if (w <= 0) { close(fd); return -1; } off += w; }
	close(fd);
	return 0;
}

#endif
