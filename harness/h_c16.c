/* C16: varint and fixed-width codecs against textbook LEB128 / explicit little-endian assembly.
 * Subcommands:
 *   v32range   case c checks all values in [c*2^param, (c+1)*2^param)  (plain build, no malloc per value)
 *   v32heap    case c checks 4096 values (boundaries, strided, random) each in exact-size heap buffers
 *   v64        case c checks boundary / walking / random 64-bit values in exact-size heap buffers
 *   fixed      fixed32/64 at every alignment 0..7 in exact-size heap buffers
 *   trunc      truncated and over-long inputs to length_packed / decode32 / decode64
 */
#include "common.h"
#include <mtbl.h>

static unsigned ref_leb128(uint8_t *out, uint64_t v)
{
	unsigned n = 0;
	for (;;) {
		uint8_t b = (uint8_t)(v % 128);
		v /= 128;
		if (v != 0) { out[n++] = (uint8_t)(b + 128); } else { out[n++] = b; break; }
	}
	return n;
}

static uint64_t n_checked;

static inline void check32_fast(uint32_t v)
{
	uint8_t ref[16], got[16];
	unsigned nr = ref_leb128(ref, v);
	memset(got, 0xff, sizeof got);
	size_t n = mtbl_varint_encode32(got, v);
	if (n != nr || memcmp(ref, got, nr) != 0) { viol("C16/encode32-not-leb128", "encode32(%u) -> %zu bytes %s, LEB128 is %u bytes %s", v, n, hexs(got, n > 10 ? 10 : n), nr, hexs(ref, nr)); return; }
	if (got[nr] != 0xff) { viol("C16/encode32-wrote-past-end", "encode32(%u) modified byte %u", v, nr); return; }
	if (mtbl_varint_length(v) != nr) { viol("C16/length-mismatch", "varint_length(%u)=%u, encoded %u", v, mtbl_varint_length(v), nr); return; }
	if (mtbl_varint_length_packed(got, 16) != nr) { viol("C16/length_packed-mismatch", "length_packed(enc(%u),16)=%u want %u", v, mtbl_varint_length_packed(got, 16), nr); return; }
	if (mtbl_varint_length_packed(got, nr) != nr) { viol("C16/length_packed-exact", "length_packed(enc(%u),%u)=%u", v, nr, mtbl_varint_length_packed(got, nr)); return; }
	if (nr > 1 && mtbl_varint_length_packed(got, nr - 1) != 0) { viol("C16/length_packed-truncated", "length_packed on truncated enc(%u) != 0", v); return; }
	uint32_t o32 = ~v; uint64_t o64 = ~(uint64_t)v;
	size_t d = mtbl_varint_decode32(got, &o32);
	if (d != nr || o32 != v) { viol("C16/decode32-roundtrip", "decode32(enc(%u)) -> %u, %zu bytes (want %u)", v, o32, d, nr); return; }
	d = mtbl_varint_decode64(got, &o64);
	if (d != nr || o64 != v) { viol("C16/decode64-roundtrip", "decode64(enc32(%u)) -> %" PRIu64 ", %zu bytes", v, o64, d); return; }
	uint8_t g64[16];
	n = mtbl_varint_encode64(g64, v);
	if (n != nr || memcmp(g64, ref, nr) != 0) { viol("C16/encode64-not-leb128", "encode64(%u) differs from LEB128", v); return; }
	n_checked++;
}

static void sub_v32range(const args_t *a, long c, rng_t *r)
{
	(void)r;
	uint64_t span = 1ULL << a->param, lo = (uint64_t)c * span, hi = lo + span;
	if (hi > (1ULL << 32)) hi = 1ULL << 32;
	for (uint64_t v = lo; v < hi; v++) check32_fast((uint32_t)v);
	stat_add("values32.range_enumerated", hi - lo);
	if (want_sample()) sample("v32range: all values in [%" PRIu64 ",%" PRIu64 ") encoded with mtbl_varint_encode32 and compared byte-wise with LEB128, decoded back, lengths compared", lo, hi);
}

/* one 64-bit value with every buffer an exact-size heap allocation (ASan red zones on both sides) */
static void check64_heap(uint64_t v, int also32)
{
	uint8_t ref[16];
	unsigned nr = ref_leb128(ref, v);
	uint8_t *buf = xmalloc(nr);
	size_t n = mtbl_varint_encode64(buf, v);
	if (n != nr || memcmp(buf, ref, nr) != 0) viol("C16/encode64-not-leb128", "encode64(%" PRIu64 ") -> %zu bytes, want %u %s", v, n, nr, hexs(ref, nr));
	if (mtbl_varint_length(v) != nr) viol("C16/length-mismatch", "varint_length(%" PRIu64 ")=%u want %u", v, mtbl_varint_length(v), nr);
	if (mtbl_varint_length_packed(buf, nr) != nr) viol("C16/length_packed-exact", "length_packed(enc(%" PRIu64 "),%u)=%u", v, nr, mtbl_varint_length_packed(buf, nr));
	if (nr > 1) {
		uint8_t *t = xmalloc(nr - 1);
		memcpy(t, ref, nr - 1);
		if (mtbl_varint_length_packed(t, nr - 1) != 0) viol("C16/length_packed-truncated", "length_packed on truncated enc(%" PRIu64 ") != 0", v);
		free(t);
	}
	uint64_t o = ~v;
	size_t d = mtbl_varint_decode64(buf, &o);
	if (d != nr || o != v) viol("C16/decode64-roundtrip", "decode64(enc(%" PRIu64 ")) -> %" PRIu64 " in %zu bytes (want %u)", v, o, d, nr);
	if (also32 && v <= UINT32_MAX) {
		uint8_t *b32 = xmalloc(nr);
		n = mtbl_varint_encode32(b32, (uint32_t)v);
		if (n != nr || memcmp(b32, ref, nr) != 0) viol("C16/encode32-not-leb128", "encode32(%" PRIu64 ") heap differs", v);
		uint32_t o32 = ~(uint32_t)v;
		d = mtbl_varint_decode32(b32, &o32);
		if (d != nr || o32 != (uint32_t)v) viol("C16/decode32-roundtrip", "decode32(enc(%" PRIu64 ")) -> %u in %zu", v, o32, d);
		free(b32);
		STAT("values32.heap");
	}
	free(buf);
	STAT("values64.heap");
}

static void boundaries(void (*f)(uint64_t, int))
{
	for (int k = 1; k <= 9; k++) {
		uint64_t b = 1ULL << (7 * k);
		f(b - 1, 1); f(b, 1); f(b + 1, 1);
		STAT("boundary.2^7k+-1");
	}
	f(0, 1); f(1, 1); f(127, 1); f(128, 1);
	f(UINT32_MAX, 1); f((uint64_t)UINT32_MAX + 1, 1); f(1ULL << 63, 0); f(UINT64_MAX, 0); f(UINT64_MAX - 1, 0); f((1ULL << 63) - 1, 0); f((1ULL << 63) + 1, 0);
	for (int i = 0; i < 64; i++) { f(1ULL << i, 1); f(~(1ULL << i), 0); f((1ULL << i) - 1, 1); STAT("walking.bit"); }
	for (int i = 0; i < 32; i++) { f((uint32_t)~(1U << i), 1); }
}

static void sub_v32heap(const args_t *a, long c, rng_t *r)
{
	(void)a;
	if (c == 0) boundaries(check64_heap);
	for (int i = 0; i < 4096; i++) {
		uint32_t v;
		switch (i & 3) {
		case 0: v = (uint32_t)rnd64(r); break;
		case 1: v = (uint32_t)rnd64(r) >> rndn(r, 32); break;          /* all magnitudes */
		case 2: v = (uint32_t)((uint64_t)c * 4096 * 251 + (uint64_t)i * 1048573ULL); break; /* strided */
		default: { int k = 1 + rndn(r, 4); v = (1U << (7 * k)) + rndn(r, 5) - 2; break; }
		}
		check64_heap(v, 1);
	}
}

static void sub_v64(const args_t *a, long c, rng_t *r)
{
	(void)a;
	if (c == 0) boundaries(check64_heap);
	for (int i = 0; i < 4096; i++) {
		uint64_t v;
		switch (i & 3) {
		case 0: v = rnd64(r); break;
		case 1: v = rnd64(r) >> rndn(r, 64); break;
		case 2: { int k = 1 + rndn(r, 9); v = (1ULL << (7 * k)) + rndn(r, 5) - 2; break; }
		default: v = rnd64(r) | (1ULL << 63); break;
		}
		check64_heap(v, 0);
	}
}

static void sub_fixed(const args_t *a, long c, rng_t *r)
{
	(void)a; (void)c;
	for (int i = 0; i < 512; i++) {
		uint64_t v = (i < 64) ? (1ULL << i) : (i < 128 ? ~(1ULL << (i - 64)) : (i == 128 ? 0 : (i == 129 ? UINT64_MAX : (i == 130 ? 0x0102030405060708ULL : rnd64(r)))));
		for (int al = 0; al < 8; al++) {
			uint8_t *b = xmalloc(al + 8);
			uint8_t *d = b + al;
			memset(b, 0x5a, al + 8);
			size_t n = mtbl_fixed_encode64(d, v);
			int ok = n == 8;
			for (int j = 0; j < 8; j++) if (d[j] != (uint8_t)(v >> (8 * j))) ok = 0;
			for (int j = 0; j < al; j++) if (b[j] != 0x5a) ok = 0;
			if (!ok) viol("C16/fixed64-encode", "fixed_encode64(%016" PRIx64 ") at alignment %d -> %s (ret %zu)", v, al, hexs(d, 8), n);
			if (mtbl_fixed_decode64(d) != v) viol("C16/fixed64-decode", "fixed_decode64 at alignment %d of %016" PRIx64 " -> %016" PRIx64, al, v, mtbl_fixed_decode64(d));
			free(b);
			uint32_t v32 = (uint32_t)(v ^ (v >> 32));
			b = xmalloc(al + 4); d = b + al;
			memset(b, 0x5a, al + 4);
			n = mtbl_fixed_encode32(d, v32);
			ok = n == 4;
			for (int j = 0; j < 4; j++) if (d[j] != (uint8_t)(v32 >> (8 * j))) ok = 0;
			for (int j = 0; j < al; j++) if (b[j] != 0x5a) ok = 0;
			if (!ok) viol("C16/fixed32-encode", "fixed_encode32(%08x) at alignment %d -> %s (ret %zu)", v32, al, hexs(d, 4), n);
			if (mtbl_fixed_decode32(d) != v32) viol("C16/fixed32-decode", "fixed_decode32 at alignment %d of %08x -> %08x", al, v32, mtbl_fixed_decode32(d));
			free(b);
			statf(1, "fixed.alignment.%d", al);
		}
		STAT("fixed.values");
	}
}

static void sub_trunc(const args_t *a, long c, rng_t *r)
{
	(void)a; (void)c;
	/* no terminator within len: must return 0 and must not read past len (exact-size buffers) */
	for (size_t len = 0; len <= 12; len++) {
		uint8_t *b = xmalloc(len);
		for (size_t i = 0; i < len; i++) b[i] = 0x80 | (uint8_t)rnd64(r);
		unsigned n = mtbl_varint_length_packed(b, len);
		if (n != 0) viol("C16/length_packed-no-terminator", "length_packed(%zu continuation bytes) = %u, want 0", len, n);
		STAT("trunc.length_packed_unterminated");
		/* terminator at each position */
		for (size_t t = 0; t < len; t++) {
			uint8_t save = b[t];
			b[t] &= 0x7f;
			n = mtbl_varint_length_packed(b, len);
			if (n != t + 1) viol("C16/length_packed-terminator-pos", "length_packed terminator at %zu of %zu -> %u", t, len, n);
			b[t] = save;
			STAT("trunc.length_packed_terminated");
		}
		free(b);
	}
	/* over-long: 5 (resp. 10) continuation bytes in an exact-size buffer: decode returns 0, reads no further */
	for (int rep = 0; rep < 64; rep++) {
		uint8_t *b = xmalloc(5);
		for (int i = 0; i < 5; i++) b[i] = 0x80 | (uint8_t)rnd64(r);
		uint32_t o = 7;
		size_t n = mtbl_varint_decode32(b, &o);
		if (n != 0) viol("C16/decode32-overlong", "decode32 of 5 continuation bytes returned %zu", n);
		free(b);
		b = xmalloc(10);
		for (int i = 0; i < 10; i++) b[i] = 0x80 | (uint8_t)rnd64(r);
		uint64_t o64 = 7;
		n = mtbl_varint_decode64(b, &o64);
		if (n != 0) viol("C16/decode64-overlong", "decode64 of 10 continuation bytes returned %zu", n);
		free(b);
		STAT("trunc.overlong_decode");
	}
	/* shorter valid encodings in exact-size buffers: decode must stop at the terminator */
	for (int len = 1; len <= 10; len++) {
		uint8_t *b = xmalloc(len);
		for (int i = 0; i < len - 1; i++) b[i] = 0x80 | (uint8_t)rnd64(r);
		b[len - 1] = (len == 10) ? 0x01 : (uint8_t)(1 + rndn(r, 0x7e));
		uint64_t o64, want = 0;
		for (int i = 0; i < len; i++) want |= (uint64_t)(b[i] & 0x7f) << (7 * i);
		size_t n = mtbl_varint_decode64(b, &o64);
		if (n != (size_t)len || o64 != want) viol("C16/decode64-exact-buffer", "decode64 of %d-byte encoding -> %zu bytes value %" PRIu64 " want %" PRIu64, len, n, o64, want);
		if (len <= 4) {
			uint32_t o32;
			n = mtbl_varint_decode32(b, &o32);
			if (n != (size_t)len || o32 != (uint32_t)want) viol("C16/decode32-exact-buffer", "decode32 of %d-byte encoding -> %zu bytes", len, n);
		}
		free(b);
		STAT("trunc.exact_buffer_decode");
	}
}

/* length_packed with bounds of 2^32 and more: the bound is a size_t; a really mapped (lazily, zero) region of 2^33 + 64 KiB so that every
 * bound passed is a true lower bound of what is readable */
#include <sys/mman.h>
static void sub_hugebound(const args_t *a, long c, rng_t *r)
{
	(void)a; (void)c;
	const uint64_t REGION = (1ULL << 33) + 65536;
	uint8_t *buf = mmap(NULL, REGION, PROT_READ | PROT_WRITE, MAP_PRIVATE | MAP_ANONYMOUS | MAP_NORESERVE, -1, 0);
	if (buf == MAP_FAILED) { inconclusive("cannot map 8 GiB of address space"); return; }
	static const uint64_t BASE[] = {1ULL << 32, 1ULL << 33, (1ULL << 32) + 4096, (1ULL << 32) * 2 - 16, (1ULL << 31), (1ULL << 32) - 13};
	for (int rep = 0; rep < 200; rep++) {
		/* a varint of 1..10 bytes at the start of the region (and, for the unterminated case, 12 continuation bytes followed by zeros = terminator at 12) */
		unsigned L = 1 + rndn(r, 10);
		for (unsigned i = 0; i < 16; i++) buf[i] = 0;
		for (unsigned i = 0; i + 1 < L; i++) buf[i] = 0x80 | (uint8_t)rnd64(r);
		buf[L - 1] = (uint8_t)(rnd64(r) & 0x7f);
		for (size_t bi = 0; bi < sizeof BASE / sizeof BASE[0]; bi++)
			for (uint64_t k = 0; k <= 12; k++) {
				uint64_t bound = BASE[bi] + k;
				unsigned got = mtbl_varint_length_packed(buf, (size_t)bound);
				unsigned want = L <= bound ? L : 0;
				if (got != want) { viol("C16/length_packed-huge-bound", "length_packed(%u-byte varint, bound %" PRIu64 ") = %u, want %u", L, bound, got, want); goto out; }
				STAT("hugebound.calls");
				if (bound >= (1ULL << 32)) STAT("hugebound.calls_bound_ge_2^32");
			}
	}
out:
	munmap(buf, REGION);
	case_hash(0x4857);
}

int main(int argc, char **argv)
{
	args_t a;
	parse_args(argc, argv, &a);
	case_fn f = NULL;
	if (!strcmp(a.sub, "v32range")) f = sub_v32range;
	else if (!strcmp(a.sub, "v32heap")) f = sub_v32heap;
	else if (!strcmp(a.sub, "v64")) f = sub_v64;
	else if (!strcmp(a.sub, "fixed")) f = sub_fixed;
	else if (!strcmp(a.sub, "trunc")) f = sub_trunc;
	else if (!strcmp(a.sub, "hugebound")) f = sub_hugebound;
	else { fprintf(stderr, "unknown subcommand\n"); return 98; }
	int rc = run_cases(&a, f);
	(void)n_checked;
	return rc;
}
