/* Independent encoder of MTBL v1/v2 files with free (legal) encoding choices.  Shares no code
 * with mtbl/: primitives come from refdec.c, compression is done by direct library calls. */
#ifndef VERIF_REFENC_H
#define VERIF_REFENC_H

#include "common.h"
#include "refdec.h"

typedef struct {
	int version;                 /* 1 or 2 */
	int comp;                    /* 0..5 */
	size_t prefix_len;           /* foreign bytes before the table */
	int restart_permille;        /* chance that a non-first entry is a restart point (1000: every entry, 0: only the first) */
	int share_mode;              /* 0 maximal, 1 random <= LCP, 2 never share */
	int blocks_mode;             /* 0 random cuts, 1 single-entry blocks, 2 one block */
	size_t mean_block_entries;
	int index_restart_permille;
	int index_share_mode;
	int last_sep_larger;         /* last index key strictly greater than the last key */
} enc_opts_t;

typedef struct {
	size_t blocks, restarts, entries, nonmaximal_shares, sep_kind[6], single_entry_blocks;
	size_t *block_first;         /* model index of the first entry of each block (blocks+1 elements) */
	bs_t *seps;                  /* index keys */
} enc_stats_t;

static const char *SEP_KIND[] = {"last-key-itself", "last-key+00", "shortest-separator", "next-first-decremented-ff-padded", "common-prefix+mid-byte", "beyond-last-key"};

/* builds the whole file image; caller frees *out and enc_stats_free */
int refenc_build(const model_t *m, const enc_opts_t *o, rng_t *r, uint8_t **out, size_t *len, enc_stats_t *st);
void enc_stats_free(enc_stats_t *st);
void gen_enc_opts(rng_t *r, enc_opts_t *o);
const char *enc_opts_str(const enc_opts_t *o);

/* helpers also used by the large-block test */
size_t refenc_entry(uint8_t *dst, uint32_t shared, const uint8_t *key, size_t lk, const uint8_t *val, size_t lv);
int refenc_compress(int comp, const uint8_t *in, size_t n, uint8_t **out, size_t *outn, rng_t *r);
void refenc_trailer(uint8_t *t, int version, const uint64_t f[9]);

#endif
