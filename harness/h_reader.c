/* C02 / C03: lookups and seek/next histories on reader sources, against the sorted-array model.
 *   c02   derived query sets (every stored key, its neighbours, prefixes, index separators ...)
 *   c03x  all (position, target) pairs on small multi-block layouts, every restart interval
 *   c03h  random long histories on 1..4 interleaved iterators of larger / compressed tables
 */
#include "gen.h"
#include "refdec.h"
#include "suites.h"

/* physical layout of the model entries + the separator keys, recovered with the independent decoder */
static epos_t *layout_of(const char *path, const wcfg_t *cfg, const model_t *m, qset_t *seps, size_t *nblocks)
{
	size_t len; uint8_t *data = map_file(path, &len);
	rd_file_t f;
	if (!data) return NULL;
	if (rd_parse(data, len, (int64_t)cfg->prefix_len, &f) != 0) { inconclusive("layout: decoder rejects file: %s", f.err); unmap_file(data, len); rd_free(&f); return NULL; }
	epos_t *ep = xcalloc(m->n + 1, sizeof(epos_t));
	size_t gi = 0;
	for (size_t b = 0; b < f.n_blocks; b++) {
		uint32_t run = 0;
		for (size_t j = 0; j < f.blocks[b].n_ents && gi < m->n; j++, gi++) {
			if (j && f.blocks[b].ents[j].is_restart) run++;
			ep[gi].block = b; ep[gi].run = run; ep[gi].first = j == 0; ep[gi].last = j + 1 == f.blocks[b].n_ents;
		}
	}
	if (gi != m->n) { inconclusive("layout: decoder finds %zu entries, model has %zu", gi, m->n); free(ep); ep = NULL; }
	if (seps) for (size_t i = 0; i < f.index.n_ents; i++) qset_add(seps, f.index.ents[i].k.p, f.index.ents[i].k.n);
	if (nblocks) *nblocks = f.n_blocks;
	rd_free(&f); unmap_file(data, len);
	return ep;
}

/* tables biased to several blocks */
static void gen_lookup_case(const args_t *a, rng_t *r, wcfg_t *cfg, model_t *m, int small)
{
	shape_t sh;
	gen_wcfg(r, cfg);
	static const size_t BS[] = {1, 1024, 1024, 1500, 4096};
	cfg->block_size = PICK(r, BS);
	gen_shape(r, &sh, cfg->block_size, 0);
	if (sh.kshape == KS_PREFIXED && sh.pfx_len > 300) sh.pfx_len = 300;
	int w[6] = {5, 30, 40, 20, 0, 1}; memcpy(sh.vclass_weights, w, sizeof w);
	size_t n = small ? 3 + rndn(r, 60) : 20 + rndn(r, a->thorough ? 1500 : 500);
	if (rndp(r, 30)) n = rndn(r, 3);
	gen_model(r, &sh, n, rndp(r, 250), m);
	shape_free(&sh);
	wcfg_stats(cfg);
}

static void case_c02(const args_t *a, long c, rng_t *r)
{
	g_prop = "C02";
	wcfg_t cfg; model_t m; char path[4096];
	gen_lookup_case(a, r, &cfg, &m, c % 3 == 0);
	snprintf(path, sizeof path, "%s/c02-%ld.mtbl", a->workdir, c);
	struct mtbl_threadpool *pool = wcfg_pool(&cfg);
	int rc = write_model(path, &cfg, &m, pool);
	if (pool) mtbl_threadpool_destroy(&pool);
	if (rc == 0) {
		qset_t seps; memset(&seps, 0, sizeof seps);
		size_t nb = 0;
		epos_t *ep = layout_of(path, &cfg, &m, &seps, &nb);
		struct mtbl_reader *rd = open_reader(path, &cfg);
		if (!rd) viol("C02/reader-rejects-written-file", "reader NULL (%s)", wcfg_str(&cfg));
		else if (ep) {
			qset_t qs; memset(&qs, 0, sizeof qs);
			/* every stored key (sampled above 250 keys, but always block-first/last keys) and its neighbours */
			size_t stride = m.n > 250 ? m.n / 250 : 1;
			for (size_t i = 0; i < m.n; i++)
				if (i % stride == 0 || ep[i].first || ep[i].last) qset_add_neighbours(&qs, m.e[i].k.p, m.e[i].k.n, 6);
			for (size_t i = 0; i < seps.n; i++) qset_add_neighbours(&qs, seps.q[i].p, seps.q[i].n, 2);
			qset_add(&qs, (const uint8_t *)"", 0);
			{ uint8_t hi[4] = {0xff, 0xff, 0xff, 0xff}; qset_add(&qs, hi, 4); uint8_t lo[1] = {0}; qset_add(&qs, lo, 1); }
			qset_finish(&qs);
			if (want_sample()) sample("c02: %zu entries in %zu blocks (%s): %zu derived queries x {get,get_prefix} + ranges; e.g. query %s", m.n, nb, wcfg_str(&cfg), qs.n, qs.n ? hexs(qs.q[qs.n / 2].p, qs.q[qs.n / 2].n) : "-");
			suite_lookups(mtbl_reader_source(rd), &m, &qs, &seps, ep, r, 40, a->thorough ? 600 : 200);
			stat_add("c02.queries", qs.n);
			if (nb >= 3) STAT("c02.tables_ge_3_blocks");
			STAT("c02.tables");
			case_hash(model_hash(&m) ^ fnv64(&cfg, sizeof cfg, 0));
			qset_free(&qs);
		}
		if (rd) mtbl_reader_destroy(&rd);
		free(ep); qset_free(&seps);
	}
	unlink(path);
	model_free(&m);
}

/* small layouts: 12..48 entries over 3..6 blocks of 1024 bytes */
static void gen_small_layout(rng_t *r, long c, wcfg_t *cfg, model_t *m)
{
	static const size_t RI[] = {1, 2, 3, 4, 7, 16};
	memset(cfg, 0, sizeof *cfg);
	cfg->comp = (c % 5 == 4) ? 2 : 0;                 /* mostly uncompressed (values point into the map), sometimes zlib */
	cfg->level = LEVEL_DEFAULT;
	cfg->block_size = 1024;
	cfg->restart = RI[c % 6];
	cfg->pool = -1;
	cfg->prefix_len = ((c / 6) % 2) ? 13 : 0;        /* whether block 0 sits at file offset 0 */
	cfg->use_fd = cfg->prefix_len > 0;
	cfg->verify = rndp(r, 300);
	size_t n = 12 + rndn(r, 37), blocks = 3 + rndn(r, 4);
	size_t vavg = (1024 * blocks) / n;
	model_init(m);
	int style = rndn(r, 3);
	for (size_t i = 0; i < n; i++) {
		uint8_t k[40]; size_t lk;
		if (style == 0) lk = snprintf((char *)k, sizeof k, "k%03zu", i * 2 + rndn(r, 2));
		else if (style == 1) { lk = rndn(r, 5); for (size_t j = 0; j < lk; j++) k[j] = TINY_ALPHA[rndn(r, 4)]; }
		else { lk = 1 + rndn(r, 3); for (size_t j = 0; j < lk; j++) k[j] = 'a' + rndn(r, 3); if (rndp(r, 300)) { memset(k + lk, 'z', 20); lk += rndn(r, 20); } }
		size_t lv = vavg / 2 + rndn(r, vavg + 1);
		if (rndp(r, 40)) lv = 1100;                   /* an entry larger than a block */
		uint8_t *v = xmalloc(lv); for (size_t j = 0; j < lv; j++) v[j] = (uint8_t)rnd64(r);
		model_push(m, k, lk, v, lv);
		free(v);
	}
	model_sort(m); model_dedupe(m);
}

static void case_c03x(const args_t *a, long c, rng_t *r)
{
	g_prop = "C03";
	wcfg_t cfg; model_t m; char path[4096];
	gen_small_layout(r, c, &cfg, &m);
	snprintf(path, sizeof path, "%s/c03x-%ld.mtbl", a->workdir, c);
	if (write_model(path, &cfg, &m, NULL) == 0) {
		size_t nb = 0;
		qset_t seps; memset(&seps, 0, sizeof seps);
		epos_t *ep = layout_of(path, &cfg, &m, &seps, &nb);
		g_extra_targets = &seps;
		struct mtbl_reader *rd = open_reader(path, &cfg);
		if (rd && ep && m.n >= 4) {
			/* bounds: whole table; one block; a span across a block boundary; a prefix; get of a stored key; an empty answer */
			bspec_t b[7]; size_t nbnd = 0;
			memset(b, 0, sizeof b);
			b[nbnd++].kind = IK_ITER;
			size_t s0 = 0, e0 = 0;   /* entries of the second block */
			for (size_t i = 0; i < m.n; i++) if (ep[i].block == 1) { if (ep[i].first) s0 = i; if (ep[i].last) e0 = i; }
			if (e0 > s0 || nb > 1) { b[nbnd].kind = IK_RANGE; b[nbnd].a = bs_dup(m.e[s0].k.p, m.e[s0].k.n); b[nbnd].b = bs_dup(m.e[e0].k.p, m.e[e0].k.n); nbnd++; }
			{ size_t lo = s0 ? s0 - 1 : 0, hi = e0 + 2 < m.n ? e0 + 2 : m.n - 1; b[nbnd].kind = IK_RANGE; b[nbnd].a = bs_dup(m.e[lo].k.p, m.e[lo].k.n); b[nbnd].b = bs_dup(m.e[hi].k.p, m.e[hi].k.n); nbnd++; }
			{ const ent_t *e = &m.e[m.n / 2]; b[nbnd].kind = IK_PREFIX; b[nbnd].a = bs_dup(e->k.p, e->k.n ? 1 : 0); nbnd++; }
			{ const ent_t *e = &m.e[e0]; b[nbnd].kind = IK_GET; b[nbnd].a = bs_dup(e->k.p, e->k.n); nbnd++; }
			{ uint8_t q[2] = {0xfe, 0x01}; b[nbnd].kind = IK_PREFIX; b[nbnd].a = bs_dup(q, 2); nbnd++; }       /* empty answer */
			if (want_sample()) sample("c03x: %zu entries in %zu blocks, restart interval %zu, foreign prefix %zu, comp=%s: full (position,target) product for %zu iterator bounds", m.n, nb, cfg.restart, cfg.prefix_len, COMP_NAME[cfg.comp], nbnd);
			suite_seek_product(mtbl_reader_source(rd), &m, ep, b, nbnd, r);
			for (size_t i = 0; i < nbnd; i++) bspec_free(&b[i]);
			STAT("c03x.layouts");
			statf(1, "c03x.layouts.restart.%zu", cfg.restart);
			statf(1, "c03x.layouts.prefix.%zu", cfg.prefix_len);
			case_hash(model_hash(&m) ^ fnv64(&cfg, sizeof cfg, 0));
		} else if (!rd) viol("C03/reader-rejects-written-file", "reader NULL");
		if (rd) mtbl_reader_destroy(&rd);
		g_extra_targets = NULL; qset_free(&seps);
		free(ep);
	}
	unlink(path);
	model_free(&m);
}

static void case_c03h(const args_t *a, long c, rng_t *r)
{
	g_prop = "C03";
	wcfg_t cfg; model_t m; char path[4096];
	gen_lookup_case(a, r, &cfg, &m, 0);
	snprintf(path, sizeof path, "%s/c03h-%ld.mtbl", a->workdir, c);
	struct mtbl_threadpool *pool = wcfg_pool(&cfg);
	int rc = write_model(path, &cfg, &m, pool);
	if (pool) mtbl_threadpool_destroy(&pool);
	if (rc == 0) {
		struct mtbl_reader *rd = open_reader(path, &cfg);
		qset_t seps; memset(&seps, 0, sizeof seps);
		epos_t *ep = layout_of(path, &cfg, &m, &seps, NULL); free(ep);
		g_extra_targets = &seps;
		if (!rd) viol("C03/reader-rejects-written-file", "reader NULL");
		else {
			int reps = 4;
			for (int i = 0; i < reps; i++) suite_history(mtbl_reader_source(rd), &m, r, 40 + rndn(r, 161));
			if (want_sample()) sample("c03h: %zu entries (%s): %d histories of 40..200 {next,seek,open,close} ops on up to 4 interleaved iterators", m.n, wcfg_str(&cfg), reps);
			case_hash(model_hash(&m) ^ fnv64(&cfg, sizeof cfg, 0));
			mtbl_reader_destroy(&rd);
		}
		g_extra_targets = NULL; qset_free(&seps);
	}
	unlink(path);
	model_free(&m);
}

int main(int argc, char **argv)
{
	args_t a;
	parse_args(argc, argv, &a);
	g_allow_huge_prefix = 1;
	case_fn f = NULL;
	if (!strcmp(a.sub, "c02")) f = case_c02;
	else if (!strcmp(a.sub, "c03x")) f = case_c03x;
	else if (!strcmp(a.sub, "c03h")) f = case_c03h;
	else return 98;
	return run_cases(&a, f);
}
