/* C13: pooled writers and sorters give the same result under every interleaving and never hang.
 * Build "sched": the real mtbl/threadpool.c, writer.c, sorter.c run under the controlled scheduler
 * (sched_shim.h).  Build "native" (-DC13_NATIVE): the same scenarios on real threads with delay injection.
 *   raw      the pool through mtbl/threadpool.h: N jobs, 1..3 result handlers, ordered/unordered, 1..2 dispatcher threads
 *   writer   pooled writer (multi-block) -> bytes identical to the unpooled reference; optionally two writers sharing a pool
 *   sorter   pooled multi-chunk sorter -> entries equal the model; iterate, or destroy without iterating
 */
#include "family.h"
#include "threadpool.h"

#ifdef C13_NATIVE
#include "delay_shim.h"
static struct { uint64_t steps, switches, spurious, trace_hash; int max_live_workers, created, policy, pct_d; } S;
static void sch_begin(uint64_t seed, int policy, int d, uint64_t est, int sp) { (void)policy; (void)d; (void)est; (void)sp; g_delay_seed = seed; g_delay_permille = 300; memset(&S, 0, sizeof S); }
static int sch_end(void) { g_delay_permille = 0; return 0; }
static void sch_yield(void) { maybe_delay(); }
static const char *sch_trace_str(int n) { (void)n; return "(native run: no trace)"; }
#else
#include "sched_shim.h"
#endif

static void pick_policy(rng_t *r, long sched_idx, uint64_t est_steps, uint64_t seed)
{
	int policy = (int)(sched_idx % 3), d = 1 + (int)rndn(r, 3);
	sch_begin(seed, policy, d, est_steps, (sched_idx % 2) ? 20 : 0);
	statf(1, "schedules.policy.%s", policy == 0 ? "random-walk" : policy == 1 ? "sticky-random" : "PCT");
	if (policy == 2) statf(1, "schedules.pct_depth.%d", d);
}
static void schedule_done(const char *scen)
{
	int unfinished = sch_end();
	if (unfinished) viol("C13/threads-left-running-after-destroy", "%s: %d library thread(s) still unfinished after all destroy calls returned; last steps: %s", scen, unfinished, sch_trace_str(40));
	stat_add("sched.points", S.steps); stat_add("sched.context_switches", S.switches); stat_add("sched.spurious_wakeups", S.spurious);
	stat_max("max.sched.points_in_one_schedule", S.steps);
	stat_max("max.live_workers_seen", S.max_live_workers);
	stat_add("sched.threads_created", S.created);
	case_hash(S.trace_hash);
	STAT("schedules");
	statf(1, "schedules.%s", scen);
}

/* ------------------------------------------------------------------ raw pool */
typedef struct { int id, handler, yields, delivered, started; } job_t;
typedef struct { int idx, ordered; int delivered_order[64], ndelivered; struct result_handler *rh; int wrong_cbdata; } hnd_t;
static int g_running, g_max_running;
static job_t g_jobs[64]; static hnd_t g_h[3];

static void *raw_job(void *arg)
{
	job_t *j = arg;
	j->started++;
	g_running++; if (g_running > g_max_running) g_max_running = g_running;
	for (int i = 0; i < j->yields; i++) sch_yield();
	g_running--;
	return j;
}
static void raw_result(void *res, void *cbdata)
{
	job_t *j = res; hnd_t *h = cbdata;
	if (!j) return;
	if (j->handler != h->idx) h->wrong_cbdata++;
	j->delivered++;
	if (h->ndelivered < 64) h->delivered_order[h->ndelivered++] = j->id;
	sch_yield();
}
typedef struct { struct threadpool *pool; int first, last; } disp_t;
static void *dispatcher(void *v)
{
	disp_t *d = v;
	for (int i = d->first; i < d->last; i++) threadpool_dispatch(d->pool, g_h[g_jobs[i].handler].rh, g_h[g_jobs[i].handler].ordered, raw_job, &g_jobs[i]);
	return NULL;
}

static void case_raw(const args_t *a, long c, rng_t *r0)
{
	(void)r0;
	long inst = c / 8, sidx = c % 8;
	rng_t rr; case_rng(&rr, a, inst); rng_t *r = &rr;
	int maxthr = 1 + rndn(r, 6), nh = 1 + rndn(r, 3), njobs = rndn(r, 8) == 0 ? rndn(r, 3) : rndn(r, 41), ndisp = 1 + rndn(r, 2);
	memset(g_jobs, 0, sizeof g_jobs); memset(g_h, 0, sizeof g_h);
	g_running = g_max_running = 0;
	for (int h = 0; h < nh; h++) { g_h[h].idx = h; g_h[h].ordered = rndn(r, 2); }
	/* two dispatcher threads never share a handler (a result handler belongs to one writer/sorter) */
	for (int i = 0; i < njobs; i++) { g_jobs[i].id = i; g_jobs[i].yields = rndn(r, 4); }
	int split = ndisp == 2 ? njobs / 2 : njobs;
	for (int i = 0; i < njobs; i++) g_jobs[i].handler = (ndisp == 2 && nh >= 2) ? (i < split ? 0 : 1 + (int)rndn(r, nh - 1)) : (int)rndn(r, nh);
	if (ndisp == 2 && nh < 2) ndisp = 1, split = njobs;
	rng_t sr; rng_init(&sr, a->seed ^ 0x5c4ed, (uint64_t)c);
	pick_policy(&sr, sidx, 40 + njobs * 30, a->seed * 1000003 + c);
	struct threadpool *pool = threadpool_init(maxthr);
	for (int h = 0; h < nh; h++) g_h[h].rh = result_handler_init(raw_result, &g_h[h]);
	if (ndisp == 1) { disp_t d = {pool, 0, njobs}; dispatcher(&d); }
	else {
		disp_t d1 = {pool, 0, split}, d2 = {pool, split, njobs}; pthread_t t1, t2;
		pthread_create(&t1, NULL, dispatcher, &d1); pthread_create(&t2, NULL, dispatcher, &d2);
		pthread_join(t1, NULL); pthread_join(t2, NULL);
	}
	/* destroy the handlers in a random order: each call must return (the scheduler proves otherwise) */
	int order[3] = {0, 1, 2};
	for (int i = nh - 1; i > 0; i--) { int j = rndn(r, i + 1); int t = order[i]; order[i] = order[j]; order[j] = t; }
	/* teardown order: handlers then pool, or the pool first (it must wait for the jobs still in flight and return) */
	int pool_first = rndn(r, 3) == 0;
	if (pool_first) { threadpool_destroy(&pool); STAT("raw.pool_destroyed_before_handlers"); }
	for (int i = 0; i < nh; i++) result_handler_destroy(&g_h[order[i]].rh);
	if (!pool_first) threadpool_destroy(&pool);
	char scen[120]; snprintf(scen, sizeof scen, "raw pool max=%d handlers=%d jobs=%d dispatchers=%d", maxthr, nh, njobs, ndisp);
	/* exactly-once, order, limits */
	for (int i = 0; i < njobs; i++) {
		if (g_jobs[i].delivered != 1) viol(g_jobs[i].delivered == 0 ? "C13/job-result-never-delivered" : "C13/job-result-delivered-more-than-once", "%s: job %d (handler %d, %s) delivered %d times, started %d times; last steps: %s", scen, i, g_jobs[i].handler, g_h[g_jobs[i].handler].ordered ? "ordered" : "unordered", g_jobs[i].delivered, g_jobs[i].started, sch_trace_str(30));
		if (g_jobs[i].started != 1) viol("C13/job-not-run-exactly-once", "%s: job %d ran %d times", scen, i, g_jobs[i].started);
	}
	for (int h = 0; h < nh; h++) {
		if (g_h[h].wrong_cbdata) viol("C13/result-delivered-to-wrong-handler", "%s: %d results reached handler %d that were dispatched to another", scen, g_h[h].wrong_cbdata, h);
		if (g_h[h].ordered) for (int i = 1; i < g_h[h].ndelivered; i++) if (g_h[h].delivered_order[i] < g_h[h].delivered_order[i - 1]) { viol("C13/ordered-results-out-of-submission-order", "%s: ordered handler %d received job %d after job %d; last steps: %s", scen, h, g_h[h].delivered_order[i], g_h[h].delivered_order[i - 1], sch_trace_str(30)); break; }
		stat_add("raw.results_delivered", g_h[h].ndelivered);
		statf(1, "raw.handlers.%s", g_h[h].ordered ? "ordered" : "unordered");
	}
	if (g_max_running > maxthr) viol("C13/more-concurrent-jobs-than-pool-maximum", "%s: %d jobs ran concurrently", scen, g_max_running);
	if (S.max_live_workers > maxthr) viol("C13/more-worker-threads-than-pool-maximum", "%s: %d worker threads alive at once; last steps: %s", scen, S.max_live_workers, sch_trace_str(30));
	stat_add("raw.jobs", njobs);
	statf(1, "raw.pool_max.%d", maxthr); statf(1, "raw.dispatchers.%d", ndisp);
	if (njobs == 0) STAT("raw.zero_jobs");
	if (want_sample()) sample("raw: %s, schedule %ld (policy %d): %" PRIu64 " scheduling points, %" PRIu64 " context switches, %" PRIu64 " spurious wake-ups; first steps: %s", scen, sidx, S.policy, S.steps, S.switches, S.spurious, sch_trace_str(4096) + 0);
	schedule_done("raw");
}

/* ------------------------------------------------------------------ pooled writer */
typedef struct { const char *path; const wcfg_t *cfg; const model_t *m; struct mtbl_threadpool *pool; } wjob_t;
static void *writer_thread(void *v)
{
	wjob_t *w = v;
	write_model(w->path, w->cfg, w->m, w->pool);
	return NULL;
}
static void make_blocks_model(rng_t *r, model_t *m, size_t n)
{
	model_init(m);
	for (size_t i = 0; i < n; i++) { uint8_t k[24]; size_t lk = snprintf((char *)k, sizeof k, "w%06zu", i); uint8_t v[300]; size_t lv = 80 + rndn(r, 220); for (size_t j = 0; j < lv; j++) v[j] = (uint8_t)rnd64(r); model_push(m, k, lk, v, lv); }
}
static void case_writer(const args_t *a, long c, rng_t *r0)
{
	(void)r0;
	long inst = c / 8, sidx = c % 8;
	rng_t rr; case_rng(&rr, a, inst); rng_t *r = &rr;
	wcfg_t cfg; gen_wcfg(r, &cfg); cfg.block_size = 1024; cfg.level = LEVEL_DEFAULT; if (cfg.prefix_len > 100) cfg.prefix_len = 13;
	int psize = (int)rndn(r, 6), two = rndn(r, 3) == 0;      /* 0: a pool object without threads (result handler exists, jobs run inline) */
	model_t m[2]; char ref[2][400], out[2][400]; size_t rl[2]; uint8_t *rb[2];
	for (int w = 0; w <= two; w++) {
		make_blocks_model(r, &m[w], 12 + rndn(r, 60));
		snprintf(ref[w], sizeof ref[w], "%s/c13w-ref-%ld-%d.mtbl", a->workdir, c, w);
		snprintf(out[w], sizeof out[w], "%s/c13w-out-%ld-%d.mtbl", a->workdir, c, w);
		cfg.pool = -1;
		write_model(ref[w], &cfg, &m[w], NULL);            /* reference: no pool, no scheduler */
		rb[w] = read_file(ref[w], &rl[w]);
	}
	rng_t sr; rng_init(&sr, a->seed ^ 0x5c4ed, (uint64_t)c);
	pick_policy(&sr, sidx, 400, a->seed * 1000003 + c);
	cfg.pool = psize;
	struct mtbl_threadpool *pool = mtbl_threadpool_init(psize);
	if (!two) write_model(out[0], &cfg, &m[0], pool);
	else {
		wjob_t j0 = {out[0], &cfg, &m[0], pool}, j1 = {out[1], &cfg, &m[1], pool}; pthread_t t0, t1;
		pthread_create(&t0, NULL, writer_thread, &j0); pthread_create(&t1, NULL, writer_thread, &j1);
		pthread_join(t0, NULL); pthread_join(t1, NULL);
		STAT("writer.two_writers_sharing_one_pool");
	}
	mtbl_threadpool_destroy(&pool);
	char scen[160]; snprintf(scen, sizeof scen, "pooled writer pool=%d %s%s", psize, wcfg_str(&cfg), two ? " (two writers share the pool)" : "");
	for (int w = 0; w <= two; w++) {
		size_t gl; uint8_t *gb = read_file(out[w], &gl);
		if (!gb || gl != rl[w] || memcmp(gb, rb[w], gl) != 0) {
			size_t d = 0; while (gb && d < gl && d < rl[w] && gb[d] == rb[w][d]) d++;
			viol("C13/pooled-writer-output-differs-from-unpooled", "%s: %zu bytes vs %zu reference bytes, first difference at %zu; last steps: %s", scen, gl, rl[w], d, sch_trace_str(30));
		}
		free(gb); free(rb[w]); unlink(out[w]); unlink(ref[w]);
		stat_add("writer.entries", m[w].n);
		model_free(&m[w]);
	}
	if (S.max_live_workers > psize) viol("C13/more-worker-threads-than-pool-maximum", "%s: %d worker threads alive at once", scen, S.max_live_workers);
	statf(1, "writer.pool.%d", psize);
	if (want_sample()) sample("writer: %s, schedule %ld: %" PRIu64 " scheduling points, %" PRIu64 " switches", scen, sidx, S.steps, S.switches);
	schedule_done("writer");
}

/* ------------------------------------------------------------------ pooled sorter */
static void case_sorter(const args_t *a, long c, rng_t *r0)
{
	(void)r0;
	long inst = c / 8, sidx = c % 8;
	rng_t rr; case_rng(&rr, a, inst); rng_t *r = &rr;
	int psize = (int)rndn(r, 5), mode = rndn(r, 4);           /* 0,1 iterate; 2 destroy without iterating; 3 sorter_write */
	size_t n = 10 + rndn(r, 60), U = 5 + rndn(r, 40), limit = 200 + rndn(r, 800);
	g_next_id = 1;
	model_t adds; model_init(&adds);
	for (size_t i = 0; i < n; i++) { unsigned ki = rndn(r, (uint32_t)U); uint8_t k[24]; size_t lk = snprintf((char *)k, sizeof k, "s%04u", ki); uint8_t v[24]; size_t nid = 1 + rndn(r, 3); for (size_t q = 0; q < nid; q++) ms_put_id(v + 8 * q, g_next_id++); model_push(&adds, k, lk, v, 8 * nid); }
	model_t flat; model_init(&flat);
	for (size_t i = 0; i < adds.n; i++) model_push(&flat, adds.e[i].k.p, adds.e[i].k.n, adds.e[i].v.p, adds.e[i].v.n);
	qsort(flat.e, flat.n, sizeof(ent_t), flat_cmp);
	model_t want; model_init(&want);
	for (size_t i = 0; i < flat.n;) { size_t j = i; uint8_t *acc = NULL; size_t la = 0; while (j < flat.n && key_cmp(flat.e[j].k.p, flat.e[j].k.n, flat.e[i].k.p, flat.e[i].k.n) == 0) { uint8_t *o; size_t lo; ms_union(acc, la, flat.e[j].v.p, flat.e[j].v.n, &o, &lo); free(acc); acc = o; la = lo; j++; } model_push(&want, flat.e[i].k.p, flat.e[i].k.n, acc, la); free(acc); i = j; }
	rng_t sr; rng_init(&sr, a->seed ^ 0x5c4ed, (uint64_t)c);
	pick_policy(&sr, sidx, 600, a->seed * 1000003 + c);
	struct mtbl_threadpool *pool = mtbl_threadpool_init(psize);
	struct mtbl_sorter_options *so = mtbl_sorter_options_init();
	mtbl_sorter_options_set_temp_dir(so, a->workdir);
	mtbl_sorter_options_set_max_memory(so, limit);
	mclos_t mc; memset(&mc, 0, sizeof mc); mc.dso_style = 1;
	mtbl_sorter_options_set_merge_func(so, ms_merge_cb, &mc);
	mtbl_sorter_options_set_threadpool(so, pool);
	struct mtbl_sorter *s = mtbl_sorter_init(so);
	mtbl_sorter_options_destroy(&so);
	char scen[160]; snprintf(scen, sizeof scen, "pooled sorter pool=%d adds=%zu max_memory=%zu mode=%s", psize, n, limit, mode == 2 ? "destroy-without-iterating" : mode == 3 ? "sorter_write" : "iterate");
	for (size_t i = 0; i < adds.n; i++) if (mtbl_sorter_add(s, adds.e[i].k.p, adds.e[i].k.n, adds.e[i].v.p, adds.e[i].v.n) != mtbl_res_success) viol("C13/sorter-add-failed", "%s: add failed", scen);
	if (mode <= 1 || mode == 3) {
		struct mtbl_iter *it = NULL; struct mtbl_reader *rd = NULL; char out[400];
		if (mode == 3) {
			snprintf(out, sizeof out, "%s/c13s-out-%ld.mtbl", a->workdir, c); unlink(out);
			struct mtbl_writer *w = mtbl_writer_init(out, NULL);
			if (mtbl_sorter_write(s, w) != mtbl_res_success) viol("C13/sorter-write-failed", "%s", scen);
			mtbl_writer_destroy(&w);
			rd = mtbl_reader_init(out, NULL);
			it = rd ? mtbl_source_iter(mtbl_reader_source(rd)) : NULL;
		} else it = mtbl_sorter_iter(s);
		const uint8_t *k, *v; size_t lk, lv, i = 0; int bad = 0;
		while (it && mtbl_iter_next(it, &k, &lk, &v, &lv) == mtbl_res_success) {
			if (i >= want.n || key_cmp(k, lk, want.e[i].k.p, want.e[i].k.n) != 0 || lv != want.e[i].v.n || memcmp(v, want.e[i].v.p, lv) != 0) { bad = 1; break; }
			i++;
		}
		if (bad || i != want.n) viol("C13/pooled-sorter-output-differs", "%s: entry %zu of %zu differs from the model (or output ended early); last steps: %s", scen, i, want.n, sch_trace_str(30));
		mtbl_iter_destroy(&it);
		if (rd) { mtbl_reader_destroy(&rd); unlink(out); }
	}
	mtbl_sorter_destroy(&s);
	mtbl_threadpool_destroy(&pool);
	if (S.max_live_workers > psize) viol("C13/more-worker-threads-than-pool-maximum", "%s: %d worker threads alive at once", scen, S.max_live_workers);
	statf(1, "sorter.mode.%s", mode == 2 ? "destroy-without-iterating" : mode == 3 ? "sorter_write" : "iterate");
	statf(1, "sorter.pool.%d", psize);
	if (want_sample()) sample("sorter: %s, schedule %ld: %" PRIu64 " scheduling points, %" PRIu64 " switches", scen, sidx, S.steps, S.switches);
	model_free(&adds); model_free(&flat); model_free(&want);
	schedule_done("sorter");
}

int main(int argc, char **argv)
{
	args_t a;
	parse_args(argc, argv, &a);
#ifndef C13_NATIVE
	/* start routines of mtbl/threadpool.c, located through the symbol table at build time (offsets relative to main) */
	if (a.aux) S.worker_fn = (char *)(uintptr_t)main + strtoll(a.aux, NULL, 0);
	if (a.aux2) S.rhandler_fn = (char *)(uintptr_t)main + strtoll(a.aux2, NULL, 0);
#endif
	case_fn f = NULL;
	if (!strcmp(a.sub, "raw")) f = case_raw;
	else if (!strcmp(a.sub, "writer")) f = case_writer;
	else if (!strcmp(a.sub, "sorter")) f = case_sorter;
	else return 98;
	return run_cases(&a, f);
}
