/* Families of sources for merger / fileset / sorter checks: per-source models whose values are
 * lists of fresh unique ids, reader-table and user-defined sources, and the expected merged views. */
#ifndef VERIF_FAMILY_H
#define VERIF_FAMILY_H

#include "gen.h"
#include "msmerge.h"
#include "itercheck.h"

/* ------------------------------------------------------------------ ids */
static uint64_t g_next_id = 1;
static uint32_t *g_id_key; static size_t g_id_cap;       /* id -> universe key index */

static inline bs_t ids_value(size_t nids, uint32_t keyidx)
{
	bs_t v; v.n = nids * 8; v.p = xmalloc(v.n);
	for (size_t i = 0; i < nids; i++) {
		uint64_t id = g_next_id++;
		if (id >= g_id_cap) { size_t nc = g_id_cap ? g_id_cap * 2 : 4096; while (nc <= id) nc *= 2; g_id_key = xrealloc(g_id_key, nc * sizeof(uint32_t)); g_id_cap = nc; }
		g_id_key[id] = keyidx;
		ms_put_id(v.p + 8 * i, id);
	}
	return v;
}
static inline size_t pick_nids(rng_t *r, int allow_big)
{
	switch (rndn(r, 20)) {
	case 0: return 0;                       /* empty value */
	case 1: case 2: return 2 + rndn(r, 4);
	case 3: return 16 + rndn(r, 30);        /* >= 128 bytes */
	case 4: return allow_big && rndp(r, 100) ? 2100 : 40;   /* >= 16 KiB rarely */
	default: return 1;
	}
}

/* ------------------------------------------------------------------ merge callback (monitor) */
typedef struct {
	const model_t *universe;       /* keys by index */
	const uint8_t *fail_key; size_t fail_len; int have_fail;
	uint64_t calls, failures_returned, operand_errors;
	int dso_style;                 /* no checks */
	int fail_on_fold;              /* 0: every fold of the key fails; n: only the n-th fold of that key (n >= 1) */
	int fail_untouched;            /* report failure by leaving *merged_val as the caller initialised it (not by storing NULL) */
	int folds_of_fail_key;
} mclos_t;

static void ms_merge_cb(void *clos, const uint8_t *key, size_t lk, const uint8_t *v0, size_t l0, const uint8_t *v1, size_t l1, uint8_t **mv, size_t *lmv)
{
	mclos_t *c = clos;
	if (c->dso_style) {     /* called concurrently from pool workers: no shared counters */
		if (c->have_fail && key_cmp(key, lk, c->fail_key, c->fail_len) == 0) { *mv = NULL; *lmv = 0; return; }
		ms_union(v0, l0, v1, l1, mv, lmv); return;
	}
	c->calls++;
	if (c->have_fail && key_cmp(key, lk, c->fail_key, c->fail_len) == 0) {
		c->folds_of_fail_key++;
		if (!c->fail_on_fold || c->folds_of_fail_key == c->fail_on_fold) {
			c->failures_returned++;
			if (!c->fail_untouched) { *mv = NULL; *lmv = 0; }     /* the library hands in *merged_val == NULL; a callback may simply not touch it */
			return;
		}
	}
	/* operands must be id lists belonging to this key (an original value or an earlier result): catches stale or foreign buffers */
	const uint8_t *ops[2] = {v0, v1}; size_t ls[2] = {l0, l1};
	for (int o = 0; o < 2; o++) {
		if (ls[o] % 8) { c->operand_errors++; continue; }
		for (size_t i = 0; i + 8 <= ls[o]; i += 8) {
			uint64_t id = ms_get_id(ops[o] + i);
			if (id == 0 || id >= g_next_id || (c->universe && (g_id_key[id] >= c->universe->n || key_cmp(c->universe->e[g_id_key[id]].k.p, c->universe->e[g_id_key[id]].k.n, key, lk) != 0))) { c->operand_errors++; break; }
			if (i && memcmp(ops[o] + i - 8, ops[o] + i, 8) > 0) { c->operand_errors++; break; }
		}
	}
	ms_union(v0, l0, v1, l1, mv, lmv);
}
static int g_dupsort_token; static uint64_t g_dupsort_wrong_clos;
#define DUPSORT_CLOS ((void *)&g_dupsort_token)
static int dupsort_bytes(void *clos, const uint8_t *key, size_t lk, const uint8_t *v0, size_t l0, const uint8_t *v1, size_t l1)
{
	if (clos != DUPSORT_CLOS) g_dupsort_wrong_clos++;       /* the comparator must get the closure it was registered with (not the merge function's) */
	/* like memcmp-style user comparators: any negative / positive magnitude, not just -1 / +1 */
	static const int MAG[] = {1, 1, 7, 255, 1 << 20, INT_MAX};
	int c = key_cmp(v0, l0, v1, l1);
	return c * MAG[(lk + (lk ? key[lk - 1] : 0) + l0 + l1) % 6];
}

/* ------------------------------------------------------------------ user-defined sources */
typedef struct { model_t m; uint64_t iters_open, nexts; int seek_refuses; /* seek reports failure when nothing lies at or after the target (as the library's own fileset source does) */ } usrc_t;
typedef struct { usrc_t *s; size_t pos; ibound_t bd; uint8_t *kbuf, *vbuf; } usrc_iter_t;

static mtbl_res usrc_next(void *v, const uint8_t **k, size_t *lk, const uint8_t **val, size_t *lv)
{
	usrc_iter_t *it = v;
	/* invalidate what was handed out before: any stale use by the consumer becomes an ASan report */
	free(it->kbuf); free(it->vbuf); it->kbuf = it->vbuf = NULL;
	it->s->nexts++;
	if (it->pos >= it->s->m.n || !inbound(&it->bd, &it->s->m.e[it->pos])) return mtbl_res_failure;
	const ent_t *e = &it->s->m.e[it->pos++];
	it->kbuf = xmalloc(e->k.n); memcpy(it->kbuf, e->k.p, e->k.n);
	it->vbuf = xmalloc(e->v.n); memcpy(it->vbuf, e->v.p, e->v.n);
	*k = it->kbuf; *lk = e->k.n; *val = it->vbuf; *lv = e->v.n;
	return mtbl_res_success;
}
static mtbl_res usrc_seek(void *v, const uint8_t *k, size_t lk)
{
	usrc_iter_t *it = v;
	free(it->kbuf); free(it->vbuf); it->kbuf = it->vbuf = NULL;
	it->pos = model_lb(&it->s->m, k, lk);
	/* a bounded iterator never goes below its range start */
	size_t st = bound_start(&it->s->m, &it->bd);
	if (it->pos < st) it->pos = st;
	if (it->s->seek_refuses && (it->pos >= it->s->m.n || !inbound(&it->bd, &it->s->m.e[it->pos]))) { STAT("usrc.seek_refused"); return mtbl_res_failure; }
	return mtbl_res_success;
}
static void usrc_iter_free(void *v)
{
	usrc_iter_t *it = v;
	it->s->iters_open--;
	free(it->kbuf); free(it->vbuf); bs_free(&it->bd.a); bs_free(&it->bd.b); free(it);
}
static struct mtbl_iter *usrc_mk(usrc_t *s, ikind_t kind, const uint8_t *a, size_t la, const uint8_t *b, size_t lb)
{
	usrc_iter_t *it = xcalloc(1, sizeof *it);
	it->s = s; it->bd.kind = kind; it->bd.a = bs_dup(a, la); it->bd.b = bs_dup(b, lb);
	it->pos = bound_start(&s->m, &it->bd);
	s->iters_open++;
	return mtbl_iter_init(usrc_seek, usrc_next, usrc_iter_free, it);
}
static struct mtbl_iter *usrc_iter(void *c) { return usrc_mk(c, IK_ITER, NULL, 0, NULL, 0); }
static struct mtbl_iter *usrc_get(void *c, const uint8_t *k, size_t lk) { return usrc_mk(c, IK_GET, k, lk, NULL, 0); }
static struct mtbl_iter *usrc_get_prefix(void *c, const uint8_t *k, size_t lk) { return usrc_mk(c, IK_PREFIX, k, lk, NULL, 0); }
static struct mtbl_iter *usrc_get_range(void *c, const uint8_t *a, size_t la, const uint8_t *b, size_t lb) { return usrc_mk(c, IK_RANGE, a, la, b, lb); }

/* ------------------------------------------------------------------ family */
#define MAXSRC 12
typedef struct {
	int nsrc;
	model_t universe;                  /* distinct keys (values unused) */
	model_t src[MAXSRC];               /* per-source sorted entries (user sources may repeat a key) */
	int is_user[MAXSRC];
	usrc_t usrc[MAXSRC];
	struct mtbl_source *usource[MAXSRC];
	struct mtbl_reader *reader[MAXSRC];
	char path[MAXSRC][256];
	model_t merged;                    /* distinct keys, value = union of ids */
	model_t flat;                      /* every entry, sorted by key then value bytes */
	size_t max_mult, keys_mult[4];     /* keys with multiplicity 1, 2, 3+, == nsrc(>=2) */
	uint64_t merges_needed;            /* sum over keys of (multiplicity - 1) */
} family_t;

static int flat_cmp(const void *a, const void *b)
{
	const ent_t *x = a, *y = b;
	int c = key_cmp(x->k.p, x->k.n, y->k.p, y->k.n);
	return c ? c : key_cmp(x->v.p, x->v.n, y->v.p, y->v.n);
}

/* opts: allow_user sources, allow duplicate keys inside user sources, small (few keys), dupsort (user-source order) */
static void family_gen(rng_t *r, family_t *f, const char *workdir, long c, int allow_user, int small, int sort_dups_by_value)
{
	memset(f, 0, sizeof *f);
	static const int NS[] = {0, 1, 1, 2, 2, 3, 3, 4, 5, 7, 8, 9, 12};
	f->nsrc = small ? 2 + rndn(r, 3) : PICK(r, NS);
	shape_t sh; gen_shape(r, &sh, 1024, 0);
	if (sh.pfx_len > 200) sh.pfx_len = 200;
	size_t U = small ? 6 + rndn(r, 25) : (rndn(r, 8) == 0 ? rndn(r, 4) : 5 + rndn(r, 300));
	gen_model(r, &sh, U, 0, &f->universe);
	shape_free(&sh);
	int empty_mode = rndn(r, 6);         /* the empty key in 0 / 1 / all sources */
	int layout = rndn(r, 5);             /* 0 random overlap, 1 identical, 2 disjoint ranges, 3 interleaved, 4 nested */
	bs_t emptyk = {NULL, 0};
	/* make sure the empty key is in the universe when wanted */
	if (empty_mode >= 3 && (f->universe.n == 0 || f->universe.e[0].k.n != 0)) {
		model_push(&f->universe, (const uint8_t *)"", 0, (const uint8_t *)"", 0);
		model_sort(&f->universe);
	}
	(void)emptyk;
	for (int s = 0; s < f->nsrc; s++) {
		model_init(&f->src[s]);
		f->is_user[s] = allow_user && rndp(r, 350);
		int empty_src = rndp(r, 80);
		int p = 150 + rndn(r, 800);
		for (size_t ki = 0; ki < f->universe.n && !empty_src; ki++) {
			const ent_t *ue = &f->universe.e[ki];
			bool take;
			switch (layout) {
			case 1: take = true; break;
			case 2: take = (ki * f->nsrc / f->universe.n) == (size_t)s; break;
			case 3: take = (ki % f->nsrc) == (size_t)s || rndp(r, 100); break;
			case 4: take = ki % (s + 1) == 0; break;
			default: take = rndp(r, p); break;
			}
			if (ue->k.n == 0) take = empty_mode >= 5 ? true : empty_mode >= 3 ? (s == 0) : take;
			if (!take) continue;
			int reps = (f->is_user[s] && allow_user > 1 && rndp(r, 120)) ? 2 + rndn(r, 2) : 1;
			for (int q = 0; q < reps; q++) {
				bs_t v = ids_value(pick_nids(r, !small), (uint32_t)ki);
				model_push(&f->src[s], ue->k.p, ue->k.n, v.p, v.n);
				free(v.p);
			}
		}
		if (sort_dups_by_value && f->src[s].n > 1) qsort(f->src[s].e, f->src[s].n, sizeof(ent_t), flat_cmp);
		if (f->is_user[s]) {
			f->usrc[s].m = f->src[s];      /* shares storage */
			f->usrc[s].seek_refuses = rndn(r, 3) == 0;
			f->usource[s] = mtbl_source_init(usrc_iter, usrc_get, usrc_get_prefix, usrc_get_range, NULL, &f->usrc[s]);
		} else {
			wcfg_t cfg; gen_wcfg(r, &cfg); cfg.pool = -1; cfg.block_size = 1024; cfg.prefix_len = 0; cfg.use_fd = 0;
			if (cfg.comp == 5 && cfg.level > 12) cfg.level = 3;
			snprintf(f->path[s], sizeof f->path[s], "%s/fam-%ld-%d.mtbl", workdir, c, s);
			write_model(f->path[s], &cfg, &f->src[s], NULL);
			f->reader[s] = mtbl_reader_init(f->path[s], NULL);
			if (!f->reader[s]) { fprintf(stderr, "harness: cannot reopen source table\n"); exit(99); }
		}
	}
	/* expected views */
	model_init(&f->flat); model_init(&f->merged);
	for (int s = 0; s < f->nsrc; s++) for (size_t i = 0; i < f->src[s].n; i++) model_push(&f->flat, f->src[s].e[i].k.p, f->src[s].e[i].k.n, f->src[s].e[i].v.p, f->src[s].e[i].v.n);
	if (f->flat.n > 1) qsort(f->flat.e, f->flat.n, sizeof(ent_t), flat_cmp);
	for (size_t i = 0; i < f->flat.n;) {
		size_t j = i; uint8_t *acc = NULL; size_t la = 0;
		while (j < f->flat.n && key_cmp(f->flat.e[j].k.p, f->flat.e[j].k.n, f->flat.e[i].k.p, f->flat.e[i].k.n) == 0) {
			uint8_t *o; size_t lo;
			ms_union(acc, la, f->flat.e[j].v.p, f->flat.e[j].v.n, &o, &lo);
			free(acc); acc = o; la = lo; j++;
		}
		model_push(&f->merged, f->flat.e[i].k.p, f->flat.e[i].k.n, acc, la);
		free(acc);
		size_t mult = j - i;
		if (mult > f->max_mult) f->max_mult = mult;
		f->keys_mult[mult == 1 ? 0 : mult == 2 ? 1 : 2]++;
		if (f->nsrc >= 2 && mult == (size_t)f->nsrc) f->keys_mult[3]++;
		f->merges_needed += mult - 1;
		i = j;
	}
}
static const struct mtbl_source *family_source(family_t *f, int s) { return f->is_user[s] ? f->usource[s] : mtbl_reader_source(f->reader[s]); }
static void family_free(family_t *f)
{
	for (int s = 0; s < f->nsrc; s++) {
		if (f->is_user[s]) { mtbl_source_destroy(&f->usource[s]); }
		else { mtbl_reader_destroy(&f->reader[s]); unlink(f->path[s]); }
		model_free(&f->src[s]);
	}
	model_free(&f->universe); model_free(&f->merged); model_free(&f->flat);
}
static void family_stats(const family_t *f)
{
	statf(1, "family.sources.%d", f->nsrc);
	stat_add("family.keys.multiplicity_1", f->keys_mult[0]);
	stat_add("family.keys.multiplicity_2", f->keys_mult[1]);
	stat_add("family.keys.multiplicity_3plus", f->keys_mult[2]);
	stat_add("family.keys.multiplicity_all_sources", f->keys_mult[3]);
	int users = 0; for (int s = 0; s < f->nsrc; s++) { users += f->is_user[s]; if (f->src[s].n == 0) STAT("family.empty_sources"); }
	if (users) STAT("family.cases_with_user_sources");
	if (f->merged.n && f->merged.e[0].k.n == 0) STAT("family.cases_with_empty_key");
}
static uint64_t family_hash(const family_t *f)
{
	uint64_t h = fnv64(&f->nsrc, sizeof f->nsrc, 0);
	for (int s = 0; s < f->nsrc; s++) { h = fnv64(&f->src[s].n, sizeof(size_t), h); for (size_t i = 0; i < f->src[s].n; i++) h = fnv64(f->src[s].e[i].k.p, f->src[s].e[i].k.n, h); }
	return h;
}

#endif
