/* C15: compression round trip for every algorithm, level and buffer; names round-trip.
 * Subcommands: small (case -> len 0..64 x 5 contents; all algorithms x levels), sized, names, badtype */
#include "common.h"
#include <mtbl.h>

static const int LEVELS_ALL[] = {INT_MIN / 2, -100000, -50, -7, -2, -1, 0, 1, 3, 6, 9, 10, 12, 19, 22, 23, 100, 100000, INT_MAX / 2};
static const int LEVELS_QUICK[] = {INT_MIN / 2, -2, 1, 9, 22, 100000};
static const char *ALG[] = {"none", "snappy", "zlib", "lz4", "lz4hc", "zstd"};

static const char *level_class(int alg, int lvl)
{
	int lo, hi;
	switch (alg) {
	case 2: lo = -1; hi = 9; break;
	case 4: lo = 0; hi = 12; break;
	case 5: lo = -131072; hi = 22; break;
	default: return "ignored";
	}
	return lvl < lo ? "below-min" : lvl > hi ? "above-max" : lvl == lo ? "min" : lvl == hi ? "max" : "in-range";
}
static const char *size_class(size_t n)
{
	return n == 0 ? "0" : n <= 7 ? "1-7" : n <= 64 ? "8-64" : n <= 4096 ? "65-4096" : n <= 65536 ? "4K-64K" : n <= (1u << 20) ? "64K-1M" : ">1M";
}

static void fill_content(uint8_t *p, size_t n, int kind, rng_t *r)
{
	switch (kind) {
	case 0: memset(p, 0, n); break;
	case 1: memset(p, 0xff, n); break;
	case 2: for (size_t i = 0; i < n; i++) p[i] = (uint8_t)i; break;
	case 3: for (size_t i = 0; i < n; i++) p[i] = (i & 1) ? 'b' : 'a'; break;
	case 4: for (size_t i = 0; i < n; i++) p[i] = (uint8_t)rnd64(r); break;
	default: { /* structured: runs, repeats of earlier slices, random */
		size_t i = 0;
		while (i < n) {
			size_t run = 1 + rndn(r, 300);
			if (run > n - i) run = n - i;
			int k = rndn(r, 3);
			if (k == 0) memset(p + i, (int)rnd64(r), run);
			else if (k == 1 && i > 0) { size_t from = rndn(r, i); for (size_t j = 0; j < run; j++) p[i + j] = p[from + (j % (i - from))]; }
			else for (size_t j = 0; j < run; j++) p[i + j] = (uint8_t)rnd64(r);
			i += run;
		}
	}
	}
}

/* one (algorithm, level) on one buffer; level == INT_MIN+1 means the default path mtbl_compress() */
#define DEFAULT_PATH (INT_MIN + 1)
static void one(int alg, int lvl, const uint8_t *in, size_t n, const char *what)
{
	uint8_t *out = NULL, *back = NULL;
	size_t lo = 0, lb = 0;
	mtbl_res res;
	if (lvl == DEFAULT_PATH) res = mtbl_compress((mtbl_compression_type)alg, in, n, &out, &lo);
	else res = mtbl_compress_level((mtbl_compression_type)alg, lvl, in, n, &out, &lo);
	statf(1, "cases.%s.%s.size%s", ALG[alg], lvl == DEFAULT_PATH ? "default" : level_class(alg, lvl), size_class(n));
	STAT("roundtrips");
	if (res != mtbl_res_success) { STAT("compress_failures_allowed"); return; }
	/* copy into an exact-size buffer: decompress must not read past output_size */
	uint8_t *exact = xmalloc(lo);
	memcpy(exact, out, lo);
	free(out);
	res = mtbl_decompress((mtbl_compression_type)alg, exact, lo, &back, &lb);
	if (res != mtbl_res_success) {
		viol("C15/decompress-fails-on-own-output", "%s: %s level %d: compress of %zu bytes ok (%zu out) but decompress failed", what, ALG[alg], lvl, n, lo);
	} else {
		if (lb != n || (n && memcmp(back, in, n) != 0))
			viol("C15/roundtrip-differs", "%s: %s level %d: %zu bytes in, %zu bytes back%s", what, ALG[alg], lvl, n, lb, lb == n ? " (content differs)" : "");
		free(back);
	}
	free(exact);
}

static void all_algos(const uint8_t *in, size_t n, const int *levels, int nlevels, const char *what)
{
	for (int alg = 1; alg <= 5; alg++) {
		one(alg, DEFAULT_PATH, in, n, what);
		for (int i = 0; i < nlevels; i++) {
			if ((alg == 1 || alg == 3) && i > 1) break;   /* level is ignored by snappy/lz4: two calls suffice */
			one(alg, levels[i], in, n, what);
		}
	}
}

static void sub_small(const args_t *a, long c, rng_t *r)
{
	size_t len = c / 5;
	int kind = c % 5;
	uint8_t *in = xmalloc(len);           /* exact size: compressors must not read past it */
	fill_content(in, len, kind, r);
	char what[64]; snprintf(what, sizeof what, "len=%zu content=%d", len, kind);
	if (a->thorough) all_algos(in, len, LEVELS_ALL, sizeof LEVELS_ALL / sizeof(int), what);
	else all_algos(in, len, LEVELS_QUICK, sizeof LEVELS_QUICK / sizeof(int), what);
	case_hash(fnv64(in, len, len * 7 + kind + 1));
	STAT("small.buffers");
	free(in);
}

static void sub_sized(const args_t *a, long c, rng_t *r)
{
	size_t len;
	int big = 0;
	switch (c % 8) {
	case 0: case 1: case 2: len = 65 + rndn(r, 4032); break;
	case 3: case 4: len = 4096 + rndn(r, 61440); break;
	case 5: len = (1u << rnd_range(r, 7, 17)) + rndn(r, 5) - 2; break;   /* around powers of two */
	case 6: len = 65536 + rndn(r, 1u << 20); big = 1; break;
	default: len = a->thorough ? (1u << 20) + rndn(r, 3u << 20) : (1u << 20); big = 1; break;
	}
	int kind = (c % 8 == 7 && (c / 8) % 2 == 0) ? 4 /* incompressible */ : 5;
	uint8_t *in = xmalloc(len);
	fill_content(in, len, kind, r);
	char what[64]; snprintf(what, sizeof what, "len=%zu content=%s", len, kind == 4 ? "random" : "structured");
	if (big) {
		static const int L[] = {INT_MIN / 2, 1, 100000};
		static const int LT[] = {INT_MIN / 2, -7, 1, 6, 12, 19, 100000};
		if (a->thorough) all_algos(in, len, LT, 7, what); else all_algos(in, len, L, 3, what);
	} else {
		int lv[4]; for (int i = 0; i < 4; i++) lv[i] = LEVELS_ALL[rndn(r, sizeof LEVELS_ALL / sizeof(int))];
		all_algos(in, len, lv, 4, what);
	}
	case_hash(fnv64(in, len > 256 ? 256 : len, len));
	stat_max("max.buffer_len", len);
	STAT("sized.buffers");
	free(in);
}

static void sub_names(const args_t *a, long c, rng_t *r)
{
	(void)a; (void)c; (void)r;
	for (int t = 0; t <= 5; t++) {
		const char *s = mtbl_compression_type_to_str((mtbl_compression_type)t);
		mtbl_compression_type back = (mtbl_compression_type)77;
		if (!s) { viol("C15/name-to_str-null", "to_str(%d) is NULL", t); continue; }
		if (strcmp(s, ALG[t]) != 0) viol("C15/name-unexpected", "to_str(%d)=%s want %s", t, s, ALG[t]);
		if (mtbl_compression_type_from_str(s, &back) != mtbl_res_success || (int)back != t)
			viol("C15/name-roundtrip", "from_str(to_str(%d)=%s) -> %d", t, s, (int)back);
		/* other spellings the library accepts must map back to the same algorithm */
		char up[16]; size_t i; for (i = 0; s[i]; i++) up[i] = (s[i] >= 'a' && s[i] <= 'z') ? s[i] - 32 : s[i]; up[i] = 0;
		back = (mtbl_compression_type)77;
		if (mtbl_compression_type_from_str(up, &back) == mtbl_res_success && (int)back != t)
			viol("C15/name-case-variant", "from_str(%s) -> %d want %d", up, (int)back, t);
		STAT("names.roundtrip");
	}
	static const char *bad[] = {"", " ", "zlib ", " zlib", "lz", "lz4h", "lz4hcc", "zstd1", "gzip", "deflate", "non", "nonee", "snap", "snappy\n", "0", "1", "zst", "brotli", "lz4 hc", "ZLIBX"};
	for (size_t i = 0; i < sizeof bad / sizeof bad[0]; i++) {
		mtbl_compression_type t = (mtbl_compression_type)77;
		if (mtbl_compression_type_from_str(bad[i], &t) != mtbl_res_failure) viol("C15/unknown-name-accepted", "from_str(\"%s\") accepted -> %d", bad[i], (int)t);
		STAT("names.refused");
	}
	/* every string at edit distance one from a name (each byte value substituted or inserted at each position, each byte deleted), and every
	 * case mask: accepted iff it equals a name under ASCII case folding (own fold: only A-Z), and then it maps to that name's algorithm */
	for (int t = 0; t <= 5; t++) {
		const char *nm = ALG[t]; size_t L = strlen(nm);
		for (int kind = 0; kind < 4; kind++)
			for (size_t pos = 0; pos <= L; pos++)
				for (int bv = (kind == 2 ? 255 : 1); bv < 256; bv++) {
					char cand[24]; size_t cl = 0;
					if (kind == 0) { if (pos >= L) break; memcpy(cand, nm, L); cand[pos] = (char)bv; cl = L; }                                   /* substitute */
					else if (kind == 1) { memcpy(cand, nm, pos); cand[pos] = (char)bv; memcpy(cand + pos + 1, nm + pos, L - pos); cl = L + 1; }   /* insert */
					else if (kind == 2) { if (pos >= L) break; memcpy(cand, nm, pos); memcpy(cand + pos, nm + pos + 1, L - pos - 1); cl = L - 1; } /* delete */
					else { if (pos > 0 || bv >= (1 << L)) break; for (size_t i = 0; i < L; i++) cand[i] = ((bv >> i) & 1) && nm[i] >= 'a' && nm[i] <= 'z' ? nm[i] - 32 : nm[i]; cl = L; } /* case mask */
					cand[cl] = 0;
					if (strlen(cand) != cl) continue;
					int want = -1;
					for (int u = 0; u <= 5; u++) {
						size_t ul = strlen(ALG[u]); int eq = ul == cl;
						for (size_t i = 0; eq && i < cl; i++) { char x = cand[i]; if (x >= 'A' && x <= 'Z') x += 32; if (x != ALG[u][i]) eq = 0; }
						if (eq) want = u;
					}
					mtbl_compression_type got = (mtbl_compression_type)77;
					mtbl_res res = mtbl_compression_type_from_str(cand, &got);
					if (want < 0 && res == mtbl_res_success) viol("C15/unknown-name-accepted", "from_str(%s) accepted as %d: it is not the name of an algorithm", hexs((const uint8_t *)cand, cl), (int)got);
					else if (want >= 0 && res == mtbl_res_success && (int)got != want) viol("C15/name-case-variant", "from_str(%s) -> %d want %d", hexs((const uint8_t *)cand, cl), (int)got, want);
					else if (want >= 0 && kind == 3 && bv == 0 && res != mtbl_res_success) viol("C15/name-roundtrip", "from_str(%s) refused", cand);
					statf(1, "names.neighbours.%s", want < 0 ? "not-a-name" : "name-up-to-case");
				}
	}
	static const int badenum[] = {-1, 6, 7, 99, 255, 1000000};
	for (size_t i = 0; i < sizeof badenum / sizeof(int); i++) {
		if (mtbl_compression_type_to_str((mtbl_compression_type)badenum[i]) != NULL) viol("C15/to_str-out-of-enum", "to_str(%d) non-NULL", badenum[i]);
		STAT("names.bad_enum");
	}
}

static void sub_badtype(const args_t *a, long c, rng_t *r)
{
	(void)a; (void)c;
	static const int types[] = {0, -1, 6, 99};
	uint8_t in[100]; fill_content(in, sizeof in, 5, r);
	for (size_t i = 0; i < 4; i++) {
		uint8_t *o = NULL; size_t lo = 0;
		if (mtbl_compress((mtbl_compression_type)types[i], in, sizeof in, &o, &lo) != mtbl_res_failure) viol("C15/badtype-compress", "mtbl_compress(type %d) succeeded", types[i]);
		if (mtbl_compress_level((mtbl_compression_type)types[i], 3, in, sizeof in, &o, &lo) != mtbl_res_failure) viol("C15/badtype-compress_level", "mtbl_compress_level(type %d) succeeded", types[i]);
		if (mtbl_decompress((mtbl_compression_type)types[i], in, sizeof in, &o, &lo) != mtbl_res_failure) viol("C15/badtype-decompress", "mtbl_decompress(type %d) succeeded", types[i]);
		STAT("badtype.calls");
	}
}

/* sizes of 2 GiB and more, on a lazily mapped zero buffer, for the algorithms whose answer is cheap (they refuse before reading,
 * or the underlying library refuses): success without a faithful round trip is a violation, failure is fine */
#include <sys/mman.h>
static void sub_hugebuf(const args_t *a, long c, rng_t *r)
{
	(void)r;
	static const uint64_t SZ[] = {0x7E000001ULL, 0x7F000000ULL, 0x7FFFFFFFULL, 0x80000000ULL, 0x80000001ULL, 0xFFFFFFFFULL, 0x100000000ULL, 0x100001000ULL, 0x200000309ULL, 0xFFFFF000ULL, 0x80001000ULL};
	uint64_t n = SZ[c % 11];
	uint8_t *buf = mmap(NULL, n + 4096, PROT_READ, MAP_PRIVATE | MAP_ANONYMOUS | MAP_NORESERVE, -1, 0);
	if (buf == MAP_FAILED) { inconclusive("cannot map %" PRIu64 " bytes", n); return; }
	for (int alg = 1; alg <= 5; alg++) {
		if (alg == 5 && n <= 0x7FFFFFFFULL) continue;      /* zstd would really compress 2 GiB: not cheap */
		/* snappy and zlib do real work below 4 GiB: one 2 GiB + 4 KiB round trip each (zlib only in thorough), otherwise only sizes they must refuse */
		if (alg == 1 && !(n > 0xFFFFFFFFULL || n == 0x80001000ULL)) continue;
		if (alg == 2 && !(n >= 0xFFFFF000ULL || (n == 0x80001000ULL && a->thorough))) continue;
		for (int pass = 0; pass < 2; pass++) {
			uint8_t *out = NULL, *back = NULL; size_t lo = 0, lb = 0;
			mtbl_res res = pass ? mtbl_compress_level((mtbl_compression_type)alg, 3, buf, n, &out, &lo) : mtbl_compress((mtbl_compression_type)alg, buf, n, &out, &lo);
			statf(1, "huge.%s.%s", ALG[alg], res == mtbl_res_success ? "compressed" : "refused");
			if (res != mtbl_res_success) continue;
			if (mtbl_decompress((mtbl_compression_type)alg, out, lo, &back, &lb) != mtbl_res_success)
				viol("C15/decompress-fails-on-own-output", "%s: compress of %" PRIu64 " bytes reported success (%zu bytes out) but decompress fails", ALG[alg], n, lo);
			else {
				if (lb != n) viol("C15/roundtrip-differs", "%s: %" PRIu64 " bytes in, %zu bytes back", ALG[alg], n, lb);
				free(back);
			}
			free(out);
		}
	}
	munmap(buf, n + 4096);
	STAT("huge.buffers");
	case_hash(n);
}

/* incompressible buffers of 0.5 .. 1 GiB: the *compressed* form is what is large here (zlib: >= 2^29 and >= 2^30 bytes, where a
 * multiple of the compressed size no longer fits 32 bits); one forked child per case, byte-exact comparison */
static void sub_hugerand(const args_t *a, long c, rng_t *r)
{
	(void)a;
	static const struct { int alg, level; uint64_t n; } K[] = {
		{2, 1, (1ULL << 30) + 4096}, {2, 0, (560ULL << 20) + 17},
		{2, 0, (520ULL << 20) + 1}, {2, 6, (1ULL << 30) + 77}, {2, 0, (1ULL << 31) + 4096}, {1, -10000, (1ULL << 30) + 4096}, {3, -10000, (1ULL << 30) + 4096},
		{4, 3, (600ULL << 20) + 5}, {5, 1, (1ULL << 30) + 4096}, {1, -10000, (1ULL << 31) + 4096},
		{3, -10000, 0x7E000000ULL},        /* the largest input liblz4 takes: incompressible, its compressed form is larger than that */
	};
	int idx = (int)(c % (long)(sizeof K / sizeof K[0]));
	uint64_t n = K[idx].n; int alg = K[idx].alg, level = K[idx].level;
	uint8_t *buf = malloc(n);
	if (!buf) { inconclusive("cannot allocate %" PRIu64 " bytes", n); return; }
	uint64_t x = rnd64(r) | 1;
	for (uint64_t i = 0; i + 8 <= n; i += 8) { x ^= x << 13; x ^= x >> 7; x ^= x << 17; memcpy(buf + i, &x, 8); }
	for (uint64_t i = n & ~7ULL; i < n; i++) buf[i] = (uint8_t)i;
	fflush(stdout);
	pid_t pid = fork();
	if (pid == 0) {
		int nfd = open("/dev/null", O_WRONLY); dup2(nfd, 2);
		uint8_t *out = NULL, *back = NULL; size_t lo = 0, lb = 0;
		mtbl_res res = level == -10000 ? mtbl_compress((mtbl_compression_type)alg, buf, n, &out, &lo) : mtbl_compress_level((mtbl_compression_type)alg, level, buf, n, &out, &lo);
		if (res != mtbl_res_success) _exit(10);
		if (mtbl_decompress((mtbl_compression_type)alg, out, lo, &back, &lb) != mtbl_res_success) _exit(11);
		if (lb != n || memcmp(back, buf, n) != 0) _exit(12);
		_exit(lo >= (1ULL << 30) ? 21 : 20);
	}
	int st; waitpid(pid, &st, 0);
	int code = WIFEXITED(st) ? WEXITSTATUS(st) : -1;
	if (code == 10) statf(1, "hugerand.%s.refused", ALG[alg]);
	else if (code == 20 || code == 21) { statf(1, "hugerand.%s.roundtrip_exact", ALG[alg]); if (code == 21) statf(1, "hugerand.%s.compressed_form_ge_1GiB", ALG[alg]); stat_add("roundtrips", 1); }
	else if (code == 11) viol("C15/decompress-fails-on-own-output", "%s level %d: compress of %" PRIu64 " incompressible bytes reported success but decompress fails", ALG[alg], level, n);
	else if (code == 12) viol("C15/roundtrip-differs", "%s level %d: %" PRIu64 " incompressible bytes do not come back unchanged", ALG[alg], level, n);
	else viol("C15/abort-on-large-incompressible-buffer", "%s level %d: %" PRIu64 " incompressible bytes: the process died (status 0x%x) inside compress/decompress", ALG[alg], level, n, st);
	free(buf);
	STAT("hugerand.buffers");
	if (want_sample()) sample("hugerand: %" PRIu64 " pseudo-random bytes, %s level %d: compress, decompress, memcmp in a forked child", n, ALG[alg], level);
	case_hash(n * 31 + alg * 7 + (uint64_t)(level + 20000));
}

int main(int argc, char **argv)
{
	args_t a;
	parse_args(argc, argv, &a);
	case_fn f = NULL;
	if (!strcmp(a.sub, "small")) f = sub_small;
	else if (!strcmp(a.sub, "sized")) f = sub_sized;
	else if (!strcmp(a.sub, "names")) f = sub_names;
	else if (!strcmp(a.sub, "badtype")) f = sub_badtype;
	else if (!strcmp(a.sub, "hugerand")) f = sub_hugerand;
	else if (!strcmp(a.sub, "hugebuf")) f = sub_hugebuf;
	else return 98;
	if (want_sample()) sample("%s: cases %ld..%ld: each buffer through mtbl_compress and mtbl_compress_level for 5 algorithms x levels, output copied to an exact-size buffer, mtbl_decompress, byte compare", a.sub, a.start, a.start + a.count - 1);
	return run_cases(&a, f);
}
