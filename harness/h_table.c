/* C01 / C09 / C10: write generated tables with the real writer under generated configurations,
 * then  c01: read back with the real reader (+ mtbl_dump tool) and compare with the model
 *       c09: decode with the independent decoder and validate the structure rule by rule
 *       c10: compare every mtbl_metadata_* accessor (+ mtbl_info tool) with the truth from the bytes
 */
#include "gen.h"
#include "refdec.h"

static void gen_case(const args_t *a, rng_t *r, wcfg_t *cfg, model_t *m)
{
	shape_t sh;
	gen_wcfg(r, cfg);
	gen_shape(r, &sh, cfg->block_size, 1);
	size_t n = gen_count(r, a->thorough);
	/* keep huge shapes affordable */
	if (sh.pfx_len >= 16384 && n > 60) n = 60;
	if (sh.vclass_weights[4] && n > 400) n = 400;
	if (cfg->comp == 5 && cfg->level >= 19 && n > 300) n = 300;          /* zstd ultra levels are slow */
	gen_model(r, &sh, n, rndp(r, 200), m);
	shape_free(&sh);
	wcfg_stats(cfg);
	model_shape_stats(m);
	statf(1, "gen.keyshape.%s", KS_NAME[sh.kshape]);
}

static int write_case(const char *path, const wcfg_t *cfg, const model_t *m)
{
	struct mtbl_threadpool *pool = wcfg_pool(cfg);
	int rc = write_model(path, cfg, m, pool);
	if (pool) mtbl_threadpool_destroy(&pool);
	return rc;
}

/* ------------------------------------------------------------------ C01 */
static char *hexarg(const uint8_t *p, size_t n)
{
	/* the tool takes hex digits in either case ("-k ABCD" in its usage text): lower, upper and per-digit mixed spellings in turn */
	static unsigned spelling;
	unsigned mode = spelling++ % 3;
	char *s = xmalloc(2 * n + 1);
	for (size_t i = 0; i < n; i++) {
		static const char lo[] = "0123456789abcdef", up[] = "0123456789ABCDEF";
		s[2 * i] = (mode == 1 || (mode == 2 && (i & 1))) ? up[p[i] >> 4] : lo[p[i] >> 4];
		s[2 * i + 1] = (mode == 1 || (mode == 2 && !(i & 1))) ? up[p[i] & 15] : lo[p[i] & 15];
	}
	s[2 * n] = 0;
	statf(1, "dump.hex_argument_spelling.%s", mode == 0 ? "lower" : mode == 1 ? "upper" : "mixed");
	return s;
}

/* parse one "%08x:hh-hh-.." token; returns bytes consumed or -1 */
static int hexval(int c) { return c >= '0' && c <= '9' ? c - '0' : c >= 'a' && c <= 'f' ? c - 'a' + 10 : c >= 'A' && c <= 'F' ? c - 'A' + 10 : -1; }
static long parse_hex_field(const char *s, uint8_t **out, size_t *n)
{
	/* "%08x:" then len pairs of hex digits separated by '-' (no sscanf: lines can be megabytes long) */
	unsigned long len = 0;
	for (int i = 0; i < 8; i++) { int h = hexval(s[i]); if (h < 0) return -1; len = len * 16 + h; }
	if (s[8] != ':') return -1;
	const char *p = s + 9;
	uint8_t *b = xmalloc(len);
	for (unsigned long i = 0; i < len; i++) {
		int h = hexval(p[0]), l = h < 0 ? -1 : hexval(p[1]);
		if (h < 0 || l < 0) { free(b); return -1; }
		b[i] = (uint8_t)(h * 16 + l); p += 2;
		if (i + 1 < len) { if (*p != '-') { free(b); return -1; } p++; }
	}
	*out = b; *n = len;
	return p - s;
}

typedef struct { const uint8_t *kp; size_t kpn; const uint8_t *vp; size_t vpn; size_t kmin, vmin; int has_kp, has_vp; } dfilter_t;

static bool dfilter_match(const dfilter_t *f, const ent_t *e)
{
	if (f->has_kp && !has_prefix(e->k.p, e->k.n, f->kp, f->kpn)) return false;
	if (f->has_vp && !has_prefix(e->v.p, e->v.n, f->vp, f->vpn)) return false;
	if (e->k.n < f->kmin || e->v.n < f->vmin) return false;
	return true;
}

static void run_dump(const args_t *a, const char *path, const model_t *m, const dfilter_t *f, const char *what)
{
	char cmd[8192];
	int o = snprintf(cmd, sizeof cmd, "%s -x", a->aux);
	char *hk = NULL, *hv = NULL;
	if (f->has_kp) { hk = hexarg(f->kp, f->kpn); o += snprintf(cmd + o, sizeof cmd - o, " -k %s", hk); }
	if (f->has_vp) { hv = hexarg(f->vp, f->vpn); o += snprintf(cmd + o, sizeof cmd - o, " -v %s", hv); }
	if (f->kmin) o += snprintf(cmd + o, sizeof cmd - o, " -K %zu", f->kmin);
	if (f->vmin) o += snprintf(cmd + o, sizeof cmd - o, " -V %zu", f->vmin);
	snprintf(cmd + o, sizeof cmd - o, " %s 2>%s.err", path, path);
	free(hk); free(hv);
	FILE *p = popen(cmd, "r");
	if (!p) { inconclusive("popen mtbl_dump failed"); return; }
	char *line = NULL; size_t cap = 0; ssize_t len;
	size_t mi = 0, nout = 0;
	int bad = 0;
	while ((len = getline(&line, &cap, p)) > 0) {
		uint8_t *k = NULL, *v = NULL; size_t lk = 0, lv = 0;
		long c1 = parse_hex_field(line, &k, &lk);
		long c2 = c1 > 0 && line[c1] == ' ' ? parse_hex_field(line + c1 + 1, &v, &lv) : -1;
		if (c1 < 0 || c2 < 0 || line[c1 + 1 + c2] != '\n') {
			if (!bad) viol("C01/dump-unparsable-line", "mtbl_dump -x (%s) printed a line that is not '%%08x:hh-hh.. %%08x:hh-..': %.60s", what, line);
			bad = 1; free(k); free(v); break;
		}
		while (mi < m->n && !dfilter_match(f, &m->e[mi])) mi++;
		if (mi >= m->n) { if (!bad) viol("C01/dump-extra-entry", "mtbl_dump (%s) printed key %s beyond the %s matching entries", what, hexs(k, lk), "model's"); bad = 1; }
		else if (key_cmp(k, lk, m->e[mi].k.p, m->e[mi].k.n) != 0 || lv != m->e[mi].v.n || (lv && memcmp(v, m->e[mi].v.p, lv) != 0)) {
			if (!bad) viol("C01/dump-differs", "mtbl_dump (%s) output entry #%zu is key %s, model expects key %s (value len %zu vs %zu)", what, nout, hexs(k, lk), hexs(m->e[mi].k.p, m->e[mi].k.n), lv, m->e[mi].v.n);
			bad = 1;
		}
		free(k); free(v);
		if (bad) break;
		mi++; nout++;
	}
	free(line);
	int st = pclose(p);
	if (!bad) {
		while (mi < m->n && !dfilter_match(f, &m->e[mi])) mi++;
		if (mi < m->n) viol("C01/dump-missing-entry", "mtbl_dump (%s) stopped after %zu entries; model still has key %s", what, nout, hexs(m->e[mi].k.p, m->e[mi].k.n));
		if (!WIFEXITED(st) || WEXITSTATUS(st) != 0) {
			char ep[4200]; snprintf(ep, sizeof ep, "%s.err", path);
			size_t el = 0; uint8_t *eb = read_file(ep, &el);
			viol("C01/dump-tool-failed", "mtbl_dump (%s) exit status %d: %.300s", what, st, eb ? (char *)eb : "");
			free(eb);
		}
	}
	stat_add("dump.entries_compared", nout);
	statf(1, "dump.invocations.%s", what);
}

static void case_c01(const args_t *a, long c, rng_t *r)
{
	wcfg_t cfg; model_t m;
	char path[4096];
	gen_case(a, r, &cfg, &m);
	snprintf(path, sizeof path, "%s/c01-%ld.mtbl", a->workdir, c);
	if (want_sample()) sample("c01: %zu entries, %s, keyshape first=%s last=%s", m.n, wcfg_str(&cfg), m.n ? hexs(m.e[0].k.p, m.e[0].k.n) : "-", m.n ? hexs(m.e[m.n - 1].k.p, m.e[m.n - 1].k.n) : "-");
	VLOG("case %ld: %zu entries %s\n", c, m.n, wcfg_str(&cfg));
	if (write_case(path, &cfg, &m) == 0) {
		struct mtbl_reader *rd = open_reader(path, &cfg);
		if (!rd) viol("C01/reader-rejects-written-file", "mtbl_reader_init returned NULL on a file just written (%s, %zu entries)", wcfg_str(&cfg), m.n);
		else {
			struct mtbl_iter *it = mtbl_source_iter(mtbl_reader_source(rd));
			const uint8_t *k, *v; size_t lk, lv, i = 0;
			int bad = 0;
			while (mtbl_iter_next(it, &k, &lk, &v, &lv) == mtbl_res_success) {
				if (i >= m.n) { viol("C01/extra-entry", "iteration returned entry #%zu key %s beyond the %zu added (%s)", i, hexs(k, lk), m.n, wcfg_str(&cfg)); bad = 1; break; }
				if (key_cmp(k, lk, m.e[i].k.p, m.e[i].k.n) != 0) { viol("C01/key-differs", "entry #%zu: key %s, added %s (%s)", i, hexs(k, lk), hexs(m.e[i].k.p, m.e[i].k.n), wcfg_str(&cfg)); bad = 1; break; }
				if (lv != m.e[i].v.n || (lv && memcmp(v, m.e[i].v.p, lv) != 0)) { viol("C01/value-differs", "entry #%zu key %s: value len %zu vs added %zu%s (%s)", i, hexs(k, lk), lv, m.e[i].v.n, lv == m.e[i].v.n ? " (content differs)" : "", wcfg_str(&cfg)); bad = 1; break; }
				i++;
			}
			if (!bad && i != m.n) viol("C01/missing-entries", "iteration stopped after %zu of %zu entries (%s)", i, m.n, wcfg_str(&cfg));
			if (!bad && it && mtbl_iter_next(it, &k, &lk, &v, &lv) == mtbl_res_success) viol("C01/next-after-end-succeeds", "next after the end returned success");
			stat_add("c01.entries_compared", i);
			mtbl_iter_destroy(&it);
			mtbl_reader_destroy(&rd);
		}
		STAT("c01.files");
		if (cfg.pool >= 0) STAT("c01.files_pooled");
		case_hash(model_hash(&m) ^ fnv64(&cfg, sizeof cfg, 0));
		/* the tool, on a sampled subset (every file in thorough) */
		if (a->aux && (a->thorough ? (c % 3 == 0) : (c % 8 == 0)) && m.n <= 3000) {
			dfilter_t f; memset(&f, 0, sizeof f);
			run_dump(a, path, &m, &f, "plain");
			if (m.n) {
				for (int rep = 0; rep < 3; rep++) {
					memset(&f, 0, sizeof f);
					const ent_t *e = &m.e[rndn(r, m.n)];
					uint8_t tmpk[64], tmpv[64];
					int kind = rndn(r, 6);
					const char *what = "";
					switch (kind) {
					case 0: /* existing key prefix */
						if (e->k.n == 0) continue;
						f.has_kp = 1; f.kp = e->k.p; f.kpn = 1 + rndn(r, e->k.n > 40 ? 40 : e->k.n); what = "k-prefix"; break;
					case 1: /* non-matching key prefix (existing prefix with last byte changed) */
						if (e->k.n == 0) continue;
						f.kpn = 1 + rndn(r, e->k.n > 40 ? 40 : e->k.n); memcpy(tmpk, e->k.p, f.kpn); tmpk[f.kpn - 1] ^= 0x55; f.has_kp = 1; f.kp = tmpk; what = "k-prefix-other"; break;
					case 2:
						if (e->v.n == 0) continue;
						f.has_vp = 1; f.vp = e->v.p; f.vpn = 1 + rndn(r, e->v.n > 40 ? 40 : e->v.n); what = "v-prefix"; break;
					case 3: /* minima at, below, above an actual key length */
						f.kmin = e->k.n + rndn(r, 3); if (f.kmin) f.kmin -= rndn(r, 2); if (!f.kmin) f.kmin = 1; what = "K-min"; break;
					case 4:
						f.vmin = e->v.n + rndn(r, 3); if (f.vmin) f.vmin -= rndn(r, 2); if (!f.vmin) f.vmin = 1; what = "V-min"; break;
					default:
						if (e->k.n == 0 || e->v.n == 0) continue;
						f.has_kp = 1; f.kp = e->k.p; f.kpn = 1; f.has_vp = 1; f.vpn = 1; memcpy(tmpv, e->v.p, 1); f.vp = tmpv; f.kmin = e->k.n; f.vmin = 1; what = "combined"; break;
					}
					run_dump(a, path, &m, &f, what);
				}
			}
		}
	}
	unlink(path);
	char ep[4200]; snprintf(ep, sizeof ep, "%s.err", path); unlink(ep);
	model_free(&m);
}

/* ------------------------------------------------------------------ C09 */
static unsigned vlen_min(uint64_t v) { unsigned n = 1; while (v >= 128) { v /= 128; n++; } return n; }

#define RULE(name) STAT("c09.rule." name)

static void validate_block_entries(const rd_block_t *b, size_t R, int is_index, size_t bi, const wcfg_t *cfg, const uint8_t **prev_key, size_t *prev_len)
{
	if (!b->restarts_valid) viol(is_index ? "C09/index-restart-array-invalid" : "C09/restart-array-invalid", "block %zu: restart offsets do not all point at entries with shared==0 in ascending order starting at 0 (%s)", bi, wcfg_str(cfg));
	RULE("restart_array_valid");
	if (b->restart64) viol("C09/restart64-on-small-block", "block %zu uses 64-bit restart offsets with entry area %" PRIu64, bi, b->entries_end);
	for (size_t j = 0; j < b->n_ents; j++) {
		const rd_ent_t *e = &b->ents[j];
		if (e->hdr_len != vlen_min(e->shared) + vlen_min(e->nonshared) + vlen_min(e->vlen)) viol("C09/non-canonical-entry-varint", "block %zu entry %zu: header varints are not minimal", bi, j);
		if (!is_index) {
			bool should = (j % R) == 0;
			if (should != (bool)e->is_restart) { viol("C09/restart-cadence", "block %zu entry %zu: restart=%d but interval is %zu (%s)", bi, j, e->is_restart, R, wcfg_str(cfg)); }
			RULE("restart_cadence");
		} else if (((j % R) == 0) == (bool)e->is_restart) STAT("c09.index_cadence_equals_interval_observed");
		if (j > 0) {
			const rd_ent_t *p = &b->ents[j - 1];
			size_t l = lcp(p->k.p, p->k.n, e->k.p, e->k.n);
			if (e->is_restart) { if (e->shared != 0) viol("C09/shared-at-restart", "block %zu entry %zu is a restart with shared=%u", bi, j, e->shared); }
			else if (e->shared != l) viol(is_index ? "C09/index-prefix-not-maximal" : "C09/prefix-not-maximal", "block %zu entry %zu: shared=%u but common prefix with previous key is %zu (%s)", bi, j, e->shared, l, wcfg_str(cfg));
			RULE("prefix_elision");
			if (e->shared >= 128) STAT("c09.multibyte_shared_varint");
		} else if (e->shared != 0) viol("C09/shared-at-restart", "block %zu first entry has shared=%u", bi, e->shared);
		if (e->nonshared >= 128) STAT("c09.multibyte_nonshared_varint");
		if (e->vlen >= 128) STAT("c09.multibyte_vlen_varint");
		if (e->vlen >= 16384) STAT("c09.vlen_ge_16384");
		if (*prev_key && key_cmp(*prev_key, *prev_len, e->k.p, e->k.n) >= 0)
			viol(is_index ? "C09/index-keys-not-increasing" : "C09/keys-not-increasing", "block %zu entry %zu key %s not greater than its predecessor %s", bi, j, hexs(e->k.p, e->k.n), hexs(*prev_key, *prev_len));
		RULE("keys_strictly_increasing");
		*prev_key = e->k.p; *prev_len = e->k.n;
	}
	if (!is_index) {
		size_t want = b->n_ents ? (b->n_ents + R - 1) / R : 1;
		if (b->n_restarts != want) viol("C09/restart-count", "block %zu: %u restarts for %zu entries at interval %zu", bi, b->n_restarts, b->n_ents, R);
		stat_add("c09.restart_points", b->n_restarts);
	}
}

static void validate_c09(const uint8_t *data, size_t len, const wcfg_t *cfg, const model_t *m)
{
	rd_file_t f;
	/* bytes before the table untouched */
	for (size_t i = 0; i < cfg->prefix_len && i < len; i++) {
		if (HUGE_PREFIX(cfg)) {    /* sparse hole: zeros; sample the first and last 64 KiB */
			if (i == 65536 && cfg->prefix_len > 131072) i = cfg->prefix_len - 65536;
			if (data[i] != 0) { viol("C09/foreign-prefix-modified", "byte %zu of the %zu (sparse, zero) bytes before the table changed", i, cfg->prefix_len); break; }
			continue;
		}
		if (data[i] != foreign_byte(i)) { viol("C09/foreign-prefix-modified", "byte %zu of the %zu foreign bytes before the table changed", i, cfg->prefix_len); break; }
	}
	RULE("foreign_prefix_untouched");
	if (rd_parse(data, len, (int64_t)cfg->prefix_len, &f) != 0) {
		viol("C09/undecodable", "independent decoder rejects the file: %s (%s, %zu entries)", f.err, wcfg_str(cfg), m->n);
		rd_free(&f);
		return;
	}
	RULE("blocks_contiguous_from_initial_offset");
	if (f.version != 2) viol("C09/not-v2-magic", "magic %08x", f.magic);
	if (!f.trailer_padding_zero) viol("C09/trailer-padding-nonzero", "trailer bytes 72..507 are not all zero");
	RULE("trailer_padding_and_magic");
	if (f.t[T_COMP] != (uint64_t)cfg->comp) viol("C09/trailer-compression", "trailer says algorithm %" PRIu64 ", configured %d", f.t[T_COMP], cfg->comp);
	size_t bs = eff_block_size(cfg), R = cfg->restart;
	const uint8_t *pk = NULL; size_t pl = 0;
	size_t total = 0;
	for (size_t i = 0; i < f.n_blocks; i++) {
		rd_block_t *b = &f.blocks[i];
		if (b->crc_stored != b->crc_calc) viol("C09/block-crc", "data block %zu: stored crc %08x, CRC-32C of stored bytes %08x", i, b->crc_stored, b->crc_calc);
		RULE("block_crc");
		if (b->len_len != vlen_min(b->stored_len)) viol("C09/non-canonical-length-prefix", "data block %zu length prefix uses %u bytes for %" PRIu64, i, b->len_len, b->stored_len);
		if (b->n_ents == 0) viol("C09/empty-data-block", "data block %zu holds no entry", i);
		validate_block_entries(b, R, 0, i, cfg, &pk, &pl);
		total += b->n_ents;
		/* block-size rules */
		if (b->n_ents > 1) {
			if (b->raw_len > bs) viol("C09/multi-entry-block-exceeds-block-size", "data block %zu holds %zu entries in %zu bytes > block size %zu (%s)", i, b->n_ents, b->raw_len, bs, wcfg_str(cfg));
			RULE("multi_entry_block_within_size");
			if (b->raw_len + 64 >= bs) STAT("c09.multi_entry_block_near_limit");
		} else STAT("c09.single_entry_blocks");
		if (i + 1 < f.n_blocks && f.blocks[i + 1].n_ents) {
			const rd_ent_t *nx = &f.blocks[i + 1].ents[0];
			if (b->raw_len + 15 + nx->k.n + nx->vlen < bs)
				viol("C09/block-closed-early", "data block %zu (%zu bytes) was closed although the next entry (key %zu + value %u bytes, +15) would only bring it to %zu < block size %zu (%s)", i, b->raw_len, nx->k.n, nx->vlen, b->raw_len + 15 + nx->k.n + nx->vlen, bs, wcfg_str(cfg));
			RULE("block_closed_only_at_limit");
		}
	}
	stat_add("c09.blocks", f.n_blocks);
	stat_add("c09.entries", total);
	if (f.n_blocks > 1) STAT("c09.multi_block_files");
	/* content equals what was added (ties C09 to the accepted input) */
	if (total != m->n) viol("C09/entry-count", "decoder finds %zu entries, %zu were added (%s)", total, m->n, wcfg_str(cfg));
	else {
		size_t gi = 0;
		for (size_t i = 0; i < f.n_blocks; i++)
			for (size_t j = 0; j < f.blocks[i].n_ents; j++, gi++) {
				const rd_ent_t *e = &f.blocks[i].ents[j];
				if (key_cmp(e->k.p, e->k.n, m->e[gi].k.p, m->e[gi].k.n) != 0 || e->vlen != m->e[gi].v.n || (e->vlen && memcmp(e->v, m->e[gi].v.p, e->vlen) != 0)) {
					viol("C09/content-differs", "decoded entry %zu differs from the added one (key %s vs %s)", gi, hexs(e->k.p, e->k.n), hexs(m->e[gi].k.p, m->e[gi].k.n));
					i = f.n_blocks; break;
				}
			}
	}
	/* index */
	rd_block_t *ix = &f.index;
	if (ix->crc_stored != ix->crc_calc) viol("C09/index-crc", "index block: stored crc %08x, computed %08x", ix->crc_stored, ix->crc_calc);
	if (ix->len_len != vlen_min(ix->stored_len)) viol("C09/non-canonical-length-prefix", "index block length prefix not minimal");
	if (ix->file_off + ix->frame_len != len - 512) viol("C09/index-not-adjacent-to-trailer", "index block ends at %" PRIu64 ", trailer starts at %zu", ix->file_off + ix->frame_len, len - 512);
	RULE("index_crc_and_position");
	if (ix->n_ents != f.n_blocks) viol("C09/index-entry-count", "%zu index entries for %zu data blocks (%s)", ix->n_ents, f.n_blocks, wcfg_str(cfg));
	else {
		for (size_t i = 0; i < f.n_blocks; i++) {
			const rd_ent_t *ie = &ix->ents[i];
			const rd_block_t *b = &f.blocks[i];
			if (f.index_offsets[i] != b->file_off) viol("C09/index-offset", "index entry %zu points at %" PRIu64 ", block starts at %" PRIu64, i, f.index_offsets[i], b->file_off);
			if (ie->vlen != vlen_min(f.index_offsets[i])) viol("C09/non-canonical-index-value", "index entry %zu value varint not minimal", i);
			if (b->n_ents) {
				const rd_ent_t *last = &b->ents[b->n_ents - 1];
				if (key_cmp(last->k.p, last->k.n, ie->k.p, ie->k.n) > 0)
					viol("C09/separator-below-last-key", "index key %s of block %zu is smaller than the block's last key %s", hexs(ie->k.p, ie->k.n), i, hexs(last->k.p, last->k.n));
				if (i + 1 < f.n_blocks && f.blocks[i + 1].n_ents) {
					const rd_ent_t *nf = &f.blocks[i + 1].ents[0];
					if (key_cmp(ie->k.p, ie->k.n, nf->k.p, nf->k.n) >= 0)
						viol("C09/separator-not-below-next-first-key", "index key %s of block %zu is not smaller than the next block's first key %s", hexs(ie->k.p, ie->k.n), i, hexs(nf->k.p, nf->k.n));
					if (key_cmp(last->k.p, last->k.n, ie->k.p, ie->k.n) < 0) STAT("c09.separators_shortened");
				}
				STAT("c09.separators_checked");
			}
		}
	}
	const uint8_t *ipk = NULL; size_t ipl = 0;
	validate_block_entries(ix, R, 1, (size_t)-1, cfg, &ipk, &ipl);
	RULE("index_entries");
	STAT("c09.files_validated");
	rd_free(&f);
}

static void case_c09(const args_t *a, long c, rng_t *r)
{
	wcfg_t cfg; model_t m;
	char path[4096];
	gen_case(a, r, &cfg, &m);
	snprintf(path, sizeof path, "%s/c09-%ld.mtbl", a->workdir, c);
	VLOG("case %ld: %zu entries %s\n", c, m.n, wcfg_str(&cfg));
	if (write_case(path, &cfg, &m) == 0) {
		size_t len; uint8_t *data = map_file(path, &len);
		if (!data) inconclusive("cannot read back %s", path);
		else {
			validate_c09(data, len, &cfg, &m);
			if (want_sample()) sample("c09: file of %zu bytes, %zu entries, %s: decoded and validated by harness/refdec.c", len, m.n, wcfg_str(&cfg));
			unmap_file(data, len);
		}
		if (cfg.pool >= 0) STAT("c09.files_pooled");
		if (cfg.prefix_len) STAT("c09.files_with_foreign_prefix");
		case_hash(model_hash(&m) ^ fnv64(&cfg, sizeof cfg, 0));
	}
	unlink(path);
	model_free(&m);
}

/* ------------------------------------------------------------------ C10 */
static void cmp_field(const char *name, uint64_t got, uint64_t want, const wcfg_t *cfg, const char *via)
{
	statf(1, "c10.fields_compared.%s", name);
	if (got != want) {
		char sig[96]; snprintf(sig, sizeof sig, "C10/%s-wrong%s", name, via[0] ? "-in-mtbl_info" : "");
		viol(sig, "%s%s = %" PRIu64 ", truth from the file bytes = %" PRIu64 " (%s)", via, name, got, want, wcfg_str(cfg));
	}
}

static void case_c10(const args_t *a, long c, rng_t *r)
{
	wcfg_t cfg; model_t m;
	char path[4096];
	gen_case(a, r, &cfg, &m);
	snprintf(path, sizeof path, "%s/c10-%ld.mtbl", a->workdir, c);
	/* like write_case, but ~1/3 of the cases interleave adds that must be refused (not counted) */
	int with_refusals = rndp(r, 350);
	struct mtbl_threadpool *pool = wcfg_pool(&cfg);
	int fd; unlink(path);
	struct mtbl_writer *w = open_writer(path, &cfg, pool, &fd);
	uint64_t refused = 0;
	if (!w) { inconclusive("writer init failed"); model_free(&m); return; }
	for (size_t i = 0; i < m.n; i++) {
		if (mtbl_writer_add(w, m.e[i].k.p, m.e[i].k.n, m.e[i].v.p, m.e[i].v.n) != mtbl_res_success) { inconclusive("increasing add refused"); }
		if (with_refusals && rndp(r, 300)) {
			const ent_t *e = &m.e[rndn(r, i + 1)];   /* a key <= last accepted */
			if (mtbl_writer_add(w, e->k.p, e->k.n, (const uint8_t *)"refused-value", 13) == mtbl_res_success) inconclusive("non-increasing add accepted (C08's concern)");
			refused++;
		}
	}
	mtbl_writer_destroy(&w);
	if (fd >= 0) close(fd);
	if (pool) mtbl_threadpool_destroy(&pool);
	stat_add("c10.refused_adds_interleaved", refused);

	size_t len; uint8_t *data = map_file(path, &len);
	rd_file_t f;
	/* the truth about where the index block sits comes from walking the frames, not from the trailer under test */
	int64_t true_ioff = data ? rd_find_index_by_walking(data, len, cfg.prefix_len, 2) : -1;
	rd_index_off_override = true_ioff;
	int prc = data ? rd_parse(data, len, (int64_t)cfg.prefix_len, &f) : -1;
	rd_index_off_override = -1;
	if (!data || true_ioff < 0 || prc != 0) {
		inconclusive("independent decoder cannot establish the truth about this file: %s", !data ? "unreadable" : true_ioff < 0 ? "frames do not tile the file up to the trailer" : f.err);
		if (data) rd_free(&f);
	} else {
		uint64_t entries = 0, bk = 0, bv = 0, bd = 0;
		for (size_t i = 0; i < f.n_blocks; i++) {
			bd += f.blocks[i].frame_len;
			for (size_t j = 0; j < f.blocks[i].n_ents; j++) { entries++; bk += f.blocks[i].ents[j].k.n; bv += f.blocks[i].ents[j].vlen; }
		}
		/* what the harness fed in must agree with what the decoder finds, otherwise the "truth" is ambiguous */
		uint64_t mk = 0, mv = 0; for (size_t i = 0; i < m.n; i++) { mk += m.e[i].k.n; mv += m.e[i].v.n; }
		if (entries != m.n || bk != mk || bv != mv) inconclusive("file content differs from accepted input (C01/C09's concern): %" PRIu64 " entries vs %zu", entries, m.n);
		else {
			struct mtbl_reader *rd = open_reader(path, &cfg);
			if (!rd) viol("C10/reader-rejects-written-file", "reader NULL");
			else {
				const struct mtbl_metadata *md = mtbl_reader_metadata(rd);
				cmp_field("count_entries", mtbl_metadata_count_entries(md), entries, &cfg, "");
				cmp_field("count_data_blocks", mtbl_metadata_count_data_blocks(md), f.n_blocks, &cfg, "");
				cmp_field("bytes_data_blocks", mtbl_metadata_bytes_data_blocks(md), bd, &cfg, "");
				cmp_field("bytes_index_block", mtbl_metadata_bytes_index_block(md), f.index.frame_len, &cfg, "");
				cmp_field("bytes_keys", mtbl_metadata_bytes_keys(md), bk, &cfg, "");
				cmp_field("bytes_values", mtbl_metadata_bytes_values(md), bv, &cfg, "");
				cmp_field("index_block_offset", mtbl_metadata_index_block_offset(md), (uint64_t)true_ioff, &cfg, "");
				if ((uint64_t)true_ioff != cfg.prefix_len + bd) viol("C10/data-blocks-not-contiguous-from-prefix", "index found at %" PRId64 " but prefix %zu + data block bytes %" PRIu64, true_ioff, cfg.prefix_len, bd);
				cmp_field("data_block_size", mtbl_metadata_data_block_size(md), eff_block_size(&cfg), &cfg, "");
				cmp_field("compression_algorithm", mtbl_metadata_compression_algorithm(md), (uint64_t)cfg.comp, &cfg, "");
				cmp_field("file_version", (uint64_t)mtbl_metadata_file_version(md), (uint64_t)MTBL_FORMAT_V2, &cfg, "");
				/* index really is where the trailer says: its frame ends at the trailer */
				if (f.index.file_off + f.index.frame_len != len - 512) viol("C10/index-extent-wrong", "index block [%" PRIu64 ",+%" PRIu64 ") does not end at the trailer (%zu)", f.index.file_off, f.index.frame_len, len - 512);
				mtbl_reader_destroy(&rd);
			}
			STAT("c10.files");
			if (m.n == 0) STAT("c10.files.empty_table");
			if (cfg.prefix_len) STAT("c10.files.foreign_prefix");
			if (cfg.pool >= 0) STAT("c10.files.pooled");
			if (cfg.pool > 0 && f.n_blocks > 1) STAT("c10.files.pooled_multiblock");
			if (refused) STAT("c10.files.with_refused_adds");
			case_hash(model_hash(&m) ^ fnv64(&cfg, sizeof cfg, 0));
			if (want_sample()) sample("c10: %zu entries %zu blocks %s refused_adds=%" PRIu64 ": 10 accessors compared with truth from bytes", m.n, f.n_blocks, wcfg_str(&cfg), refused);
			/* mtbl_info on a sampled subset */
			if (a->aux && (a->thorough ? c % 4 == 0 : c % 10 == 0)) {
				char cmd[8300]; snprintf(cmd, sizeof cmd, "LC_ALL=C %s %s 2>/dev/null", a->aux, path);
				FILE *p = popen(cmd, "r");
				char line[4400]; int seen = 0;
				while (p && fgets(line, sizeof line, p)) {
					unsigned long long v; char word[64];
					if (sscanf(line, "index block offset: %llu", &v) == 1) { cmp_field("index_block_offset", v, cfg.prefix_len + bd, &cfg, "mtbl_info: "); seen++; }
					else if (sscanf(line, "index bytes: %llu", &v) == 1) { cmp_field("bytes_index_block", v, f.index.frame_len, &cfg, "mtbl_info: "); seen++; }
					else if (sscanf(line, "data block bytes %llu", &v) == 1) { cmp_field("bytes_data_blocks", v, bd, &cfg, "mtbl_info: "); seen++; }
					else if (sscanf(line, "data block size: %llu", &v) == 1) { cmp_field("data_block_size", v, eff_block_size(&cfg), &cfg, "mtbl_info: "); seen++; }
					else if (sscanf(line, "data block count %llu", &v) == 1) { cmp_field("count_data_blocks", v, f.n_blocks, &cfg, "mtbl_info: "); seen++; }
					else if (sscanf(line, "entry count: %llu", &v) == 1) { cmp_field("count_entries", v, entries, &cfg, "mtbl_info: "); seen++; }
					else if (sscanf(line, "key bytes: %llu", &v) == 1) { cmp_field("bytes_keys", v, bk, &cfg, "mtbl_info: "); seen++; }
					else if (sscanf(line, "value bytes: %llu", &v) == 1) { cmp_field("bytes_values", v, bv, &cfg, "mtbl_info: "); seen++; }
					else if (sscanf(line, "file size: %llu", &v) == 1) { cmp_field("file_size", v, len, &cfg, "mtbl_info: "); seen++; }
					else if (sscanf(line, "compression algorithm: %63s", word) == 1) {
						if (strcmp(word, COMP_NAME[cfg.comp]) != 0) viol("C10/compression_algorithm-wrong-in-mtbl_info", "mtbl_info prints %s, file uses %s", word, COMP_NAME[cfg.comp]);
						seen++;
					}
				}
				int st = p ? pclose(p) : -1;
				if (st != 0 || seen != 10) viol("C10/mtbl_info-failed", "mtbl_info exit %d, %d of 10 fields parsed (%s)", st, seen, wcfg_str(&cfg));
				STAT("c10.mtbl_info_runs");
			}
		}
		rd_free(&f);
	}
	unmap_file(data, len);
	unlink(path);
	model_free(&m);
}

/* ------------------------------------------------------------------ a table larger than 4 GiB: every accumulated counter crosses 2^32 */
static void big_value(uint8_t *buf, size_t n, size_t i)
{
	size_t seedlen = n < 4096 ? n : 4096;
	for (size_t j = 0; j < seedlen; j++) buf[j] = (uint8_t)(i * 131 + j * 7 + (j >> 8));
	for (size_t have = seedlen; have < n;) { size_t c = have < n - have ? have : n - have; memcpy(buf + have, buf, c); have += c; }
	if (n >= 16) { uint64_t tag = 0x1122334455667788ULL ^ (uint64_t)i; memcpy(buf + n - 8, &tag, 8); memcpy(buf + n / 2, &tag, 8); }
}
static void case_big(const args_t *a, long c, rng_t *r)
{
	char path[4096]; snprintf(path, sizeof path, "%s/big-%ld.mtbl", a->workdir, c); unlink(path);
	const size_t VL = (16u << 20) + rndn(r, 4096);       /* every entry is larger than a block: one block per entry */
	const size_t N = (size_t)((4400ULL << 20) / VL) + 1 + rndn(r, 4);
	int poolsz = (c % 2) ? 2 : -1;
	struct mtbl_threadpool *pool = poolsz > 0 ? mtbl_threadpool_init(poolsz) : NULL;
	struct mtbl_writer_options *wo = mtbl_writer_options_init();
	mtbl_writer_options_set_compression(wo, MTBL_COMPRESSION_NONE);
	mtbl_writer_options_set_block_size(wo, 65536);
	if (pool) mtbl_writer_options_set_threadpool(wo, pool);
	struct mtbl_writer *w = mtbl_writer_init(path, wo);
	mtbl_writer_options_destroy(&wo);
	uint8_t *buf = xmalloc(VL + 64);
	uint64_t bk = 0, bv = 0;
	for (size_t i = 0; i < N; i++) {
		char k[32]; size_t lk = snprintf(k, sizeof k, "big/%06zu", i);
		size_t lv = VL - (i % 7);
		big_value(buf, lv, i);
		if (mtbl_writer_add(w, (uint8_t *)k, lk, buf, lv) != mtbl_res_success) { viol("C10/big-table-add-refused", "add %zu refused", i); break; }
		bk += lk; bv += lv;
	}
	mtbl_writer_destroy(&w);
	if (pool) mtbl_threadpool_destroy(&pool);
	/* truth: walk the block frames with pread (own varint), nothing else of the file is trusted */
	int fd = open(path, O_RDONLY); struct stat st; fstat(fd, &st);
	uint8_t t[512]; if (pread(fd, t, 512, st.st_size - 512) != 512) { inconclusive("short trailer"); }
	uint64_t off = 0, nblocks = 0, ioff = rd_le64(t);
	while (off < ioff && nblocks <= N + 2) {
		uint8_t h[16]; if (pread(fd, h, 16, off) < 11) break;
		uint64_t len; unsigned ll = rd_varint(h, h + 10, &len);
		if (!ll) break;
		off += ll + 4 + len; nblocks++;
	}
	uint8_t h2[16]; uint64_t ilen = 0; unsigned ill = pread(fd, h2, 16, ioff) > 0 ? rd_varint(h2, h2 + 10, &ilen) : 0;
	close(fd);
	wcfg_t cfg; memset(&cfg, 0, sizeof cfg); cfg.block_size = 65536; cfg.pool = poolsz; cfg.restart = 16;
	if (off != ioff) viol("C10/big-table-frames-do-not-end-at-index", "block frames end at %" PRIu64 ", trailer says the index starts at %" PRIu64, off, ioff);
	struct mtbl_reader *rd = mtbl_reader_init(path, NULL);
	if (!rd) viol("C10/reader-rejects-written-file", "reader NULL on the > 4 GiB table");
	else {
		const struct mtbl_metadata *md = mtbl_reader_metadata(rd);
		cmp_field("count_entries", mtbl_metadata_count_entries(md), N, &cfg, "");
		cmp_field("count_data_blocks", mtbl_metadata_count_data_blocks(md), nblocks, &cfg, "");
		cmp_field("bytes_data_blocks", mtbl_metadata_bytes_data_blocks(md), off, &cfg, "");
		cmp_field("bytes_index_block", mtbl_metadata_bytes_index_block(md), ill + 4 + ilen, &cfg, "");
		cmp_field("bytes_keys", mtbl_metadata_bytes_keys(md), bk, &cfg, "");
		cmp_field("bytes_values", mtbl_metadata_bytes_values(md), bv, &cfg, "");
		cmp_field("index_block_offset", mtbl_metadata_index_block_offset(md), off, &cfg, "");
		if ((uint64_t)st.st_size != off + ill + 4 + ilen + 512) viol("C10/index-extent-wrong", "file size %" PRIu64 " != data %" PRIu64 " + index + trailer", (uint64_t)st.st_size, off);
		/* C01 on the same file: iteration returns every entry; lookups beyond 2^32 work */
		struct mtbl_iter *it = mtbl_source_iter(mtbl_reader_source(rd));
		const uint8_t *k, *v; size_t lk, lv, i = 0;
		while (mtbl_iter_next(it, &k, &lk, &v, &lv) == mtbl_res_success) {
			char wk[32]; size_t wl = snprintf(wk, sizeof wk, "big/%06zu", i);
			size_t wlv = VL - (i % 7);
			big_value(buf, wlv, i);
			if (lk != wl || memcmp(k, wk, wl) != 0 || lv != wlv || memcmp(v, buf, wlv) != 0) { viol("C01/big-table-entry-differs", "entry %zu of the > 4 GiB table differs (key %s, %zu value bytes, expected %zu)", i, hexs(k, lk), lv, wlv); break; }
			i++;
		}
		if (i != N) viol("C01/big-table-missing-entries", "iteration returned %zu of %zu entries of the > 4 GiB table", i, N);
		mtbl_iter_destroy(&it);
		for (size_t q = N - 3; q < N; q++) {
			char wk[32]; size_t wl = snprintf(wk, sizeof wk, "big/%06zu", q);
			struct mtbl_iter *g = mtbl_source_get(mtbl_reader_source(rd), (uint8_t *)wk, wl);
			if (mtbl_iter_next(g, &k, &lk, &v, &lv) != mtbl_res_success || lv != VL - (q % 7)) viol("C02/big-table-get-wrong", "get(%s) beyond 4 GiB failed", wk);
			mtbl_iter_destroy(&g);
		}
		mtbl_reader_destroy(&rd);
	}
	stat_add("big.bytes_written", st.st_size);
	STAT("big.tables_over_4GiB");
	if (poolsz > 0) STAT("big.tables_over_4GiB_pooled");
	if (want_sample()) sample("big: %zu entries of ~16 MiB each (one block per entry), file of %" PRIu64 " bytes, pool %d: every byte counter and offset crosses 2^32", N, (uint64_t)st.st_size, poolsz);
	case_hash(N * 1000003 + VL);
	free(buf); unlink(path);
}

/* ------------------------------------------------------------------ blocks whose size sits within a few bytes of the builder's buffer capacity (65536 * 2^k):
 * the restart array and count are appended into whatever room is left, so an allocation slip of a few bytes only shows at these sizes (ASan watches the buffer) */
static size_t edge_write_index_file(const char *path, size_t nblocks, size_t last_key_len, uint64_t *index_entry_bytes, uint32_t *index_restarts)
{
	unlink(path);
	struct mtbl_writer_options *wo = mtbl_writer_options_init();
	mtbl_writer_options_set_compression(wo, MTBL_COMPRESSION_NONE);
	mtbl_writer_options_set_block_size(wo, 1024);
	struct mtbl_writer *w = mtbl_writer_init(path, wo);
	mtbl_writer_options_destroy(&wo);
	uint8_t val[1000]; memset(val, 'v', sizeof val);
	for (size_t i = 0; i < nblocks; i++) { char k[16]; int lk = snprintf(k, sizeof k, "%07zu", i); if (mtbl_writer_add(w, (uint8_t *)k, lk, val, sizeof val) != mtbl_res_success) viol("C01/edge-add-refused", "add refused"); }
	uint8_t lastk[256]; memset(lastk, 'x', sizeof lastk); lastk[0] = '9';
	if (mtbl_writer_add(w, lastk, last_key_len, val, sizeof val) != mtbl_res_success) viol("C01/edge-add-refused", "add refused");
	mtbl_writer_destroy(&w);
	size_t len; uint8_t *data = map_file(path, &len); rd_file_t f; size_t n = 0;
	if (data && rd_parse(data, len, 0, &f) == 0) { *index_entry_bytes = f.index.entries_end; *index_restarts = f.index.n_restarts; n = f.n_blocks; rd_free(&f); }
	else { viol("C09/undecodable", "edge: the independent decoder rejects the file"); *index_entry_bytes = 0; *index_restarts = 0; }
	if (data) unmap_file(data, len);
	return n;
}
static void edge_readback(const char *path, size_t want_entries, const char *what)
{
	struct mtbl_reader *rd = mtbl_reader_init(path, NULL);
	if (!rd) { viol("C01/reader-rejects-written-file", "edge (%s): reader NULL", what); return; }
	struct mtbl_iter *it = mtbl_source_iter(mtbl_reader_source(rd));
	const uint8_t *k, *v; size_t lk, lv, n = 0;
	while (mtbl_iter_next(it, &k, &lk, &v, &lv) == mtbl_res_success) n++;
	if (n != want_entries) viol("C01/missing-entries", "edge (%s): iteration returned %zu of %zu entries", what, n, want_entries);
	mtbl_iter_destroy(&it); mtbl_reader_destroy(&rd);
}
static void case_edge(const args_t *a, long c, rng_t *r)
{
	(void)r;
	char path[4096]; snprintf(path, sizeof path, "%s/edge-%ld.mtbl", a->workdir, c);
	if (c < 64) {
		/* data block of one entry whose entry area is capacity - f bytes, f = 0..15 (one restart point: 8 more bytes are appended) */
		size_t cap = (size_t)65536 << (c / 16), f = (size_t)(c % 16);
		size_t L = cap - f - 6;                          /* entry = 1 + 1 + 3 (value length varint) + 1 key byte + L */
		if (L >= (1u << 21)) L -= 1;                     /* 4-byte varint from 2 MiB on (not reached with cap <= 512 KiB) */
		unlink(path);
		struct mtbl_writer_options *wo = mtbl_writer_options_init();
		mtbl_writer_options_set_compression(wo, MTBL_COMPRESSION_NONE);
		mtbl_writer_options_set_block_size(wo, 1024);
		struct mtbl_writer *w = mtbl_writer_init(path, wo);
		mtbl_writer_options_destroy(&wo);
		uint8_t *val = xmalloc(L); for (size_t i = 0; i < L; i++) val[i] = (uint8_t)(i * 13);
		mtbl_writer_add(w, (const uint8_t *)"a", 1, (const uint8_t *)"head", 4);
		if (mtbl_writer_add(w, (const uint8_t *)"k", 1, val, L) != mtbl_res_success) viol("C01/edge-add-refused", "add refused");
		mtbl_writer_add(w, (const uint8_t *)"z", 1, (const uint8_t *)"tail", 4);
		mtbl_writer_destroy(&w);
		free(val);
		size_t len; uint8_t *data = map_file(path, &len); rd_file_t fl;
		if (data && rd_parse(data, len, 0, &fl) == 0) {
			if (fl.n_blocks != 3 || fl.blocks[1].entries_end != cap - f) inconclusive("edge: expected a middle block with an entry area of %zu bytes, found %zu blocks / %" PRIu64, cap - f, fl.n_blocks, fl.n_blocks > 1 ? fl.blocks[1].entries_end : 0);
			else statf(1, "edge.data_block.free_bytes_before_restart_array.%zu", f);
			rd_free(&fl);
		} else viol("C09/undecodable", "edge: the independent decoder rejects the file");
		if (data) unmap_file(data, len);
		edge_readback(path, 3, "data block");
		STAT("edge.data_block_cases");
		if (want_sample()) sample("edge: single-entry data block with an entry area of %zu bytes = builder capacity %zu - %zu", cap - f, cap, f);
	} else {
		/* index block: one-entry data blocks until the index entry area is just below 131072; the last key's length then moves it byte by byte across
		   capacity - (4 * restarts + 4) */
		const size_t cap = 131072;
		uint64_t u0, u1; uint32_t nr;
		size_t j = (size_t)(c - 64);                    /* 0..39: where the entry area ends relative to the room the restart array needs */
		size_t M = 7000; long need = 0, target = 0; double per = 12.0;
		for (int round = 0; round < 8; round++) {
			edge_write_index_file(path, M, 10, &u0, &nr);
			if (!u0) return;
			target = (long)cap - (long)(4 * (nr + 1) + 4) - 12 + (long)j;       /* entry area aimed at: from 12 below the last size that fits to 27 above */
			need = target - (long)u0;                   /* bytes to add through the last key (its index key is the key itself: nothing follows it) */
			if (need >= 0 && need <= 100) break;
			long dm = (long)((double)(need - 50) / per);
			if (dm == 0) dm = need < 0 ? -1 : 1;
			M = (size_t)((long)M + dm);
		}
		if (need < 0 || need > 100) { inconclusive("edge: index calibration off by %ld bytes", need); return; }
		size_t nb = edge_write_index_file(path, M, (size_t)(10 + need), &u1, &nr);
		statf(1, "edge.index_block.entry_area_minus_capacity.%ld", (long)u1 - (long)cap);
		if ((long)u1 != target) STAT("edge.index_block.target_missed");
		edge_readback(path, M + 1, "index block");
		(void)nb;
		STAT("edge.index_block_cases");
		if (want_sample()) sample("edge: %zu one-entry blocks, index entry area %" PRIu64 " bytes with %u restart points, builder capacity %zu", M + 1, u1, nr, cap);
	}
	unlink(path);
	case_hash((uint64_t)c * 7919);
}

/* ------------------------------------------------------------------ one writer-made data block around the 2^32 boundary (thorough, -O2 build) */
static void case_bigblock(const args_t *a, long c, rng_t *r)
{
	(void)r;
	/* entry area of exactly UINT32_MAX - 1, UINT32_MAX, UINT32_MAX + 1 bytes: the restart array must be 32-bit, 32-bit, 64-bit */
	static const int64_t DELTA[] = {-1, 0, 1, 4096};
	uint64_t target = (uint64_t)UINT32_MAX + DELTA[c % 4];
	char path[4096]; snprintf(path, sizeof path, "%s/bigblock-%ld.mtbl", a->workdir, c); unlink(path);
	struct mtbl_writer_options *wo = mtbl_writer_options_init();
	mtbl_writer_options_set_compression(wo, MTBL_COMPRESSION_NONE);
	mtbl_writer_options_set_block_size(wo, (size_t)6 << 30);
	struct mtbl_writer *w = mtbl_writer_init(path, wo);
	mtbl_writer_options_destroy(&wo);
	/* keys k0..k3, restart interval 16: entry i costs 3 header varints (1 + 1 + 5 bytes) + non-shared key bytes + value */
	const uint64_t V = 1ULL << 30;
	uint64_t fixed = (7 + 2) + 3 * (7 + 1);
	uint64_t v3 = target - fixed - 3 * V;
	uint8_t *buf = calloc(1, V + 8192);
	if (!buf) { inconclusive("cannot allocate 1 GiB"); return; }
	model_t m; model_init(&m);
	for (int i = 0; i < 4; i++) {
		char k[4]; snprintf(k, sizeof k, "k%d", i);
		uint64_t lv = i < 3 ? V : v3;
		buf[0] = (uint8_t)(i + 1); buf[lv - 1] = (uint8_t)(0x40 + i);
		if (mtbl_writer_add(w, (uint8_t *)k, 2, buf, lv) != mtbl_res_success) viol("C09/big-block-add-refused", "add %d refused", i);
		buf[lv - 1] = 0;
	}
	mtbl_writer_destroy(&w);
	size_t len; uint8_t *data = map_file(path, &len);
	rd_file_t f;
	if (!data) inconclusive("cannot map the big block file");
	else if (rd_parse(data, len, 0, &f) != 0) { viol("C09/undecodable", "independent decoder rejects the writer's block with an entry area of %" PRIu64 " bytes: %s", target, f.err); rd_free(&f); }
	else {
		if (f.n_blocks != 1 || f.blocks[0].n_ents != 4) viol("C09/entry-count", "big block: %zu blocks, %zu entries", f.n_blocks, f.n_blocks ? f.blocks[0].n_ents : 0);
		else {
			rd_block_t *b = &f.blocks[0];
			if (b->entries_end != target) viol("C09/big-block-entry-area", "entry area is %" PRIu64 " bytes, expected %" PRIu64, b->entries_end, target);
			if (b->restart64 != (target > UINT32_MAX)) viol("C09/restart-array-width", "entry area %" PRIu64 ": restart array is %d-bit", target, b->restart64 ? 64 : 32);
			if (!b->restarts_valid) viol("C09/restart-array-invalid", "big block restart array invalid");
			if (b->crc_stored != b->crc_calc) viol("C09/block-crc", "big block crc");
			statf(1, "bigblock.restart_width.%d", b->restart64 ? 64 : 32);
		}
		rd_free(&f);
	}
	if (data) unmap_file(data, len);
	/* and the library's own reader must read its own block back */
	fflush(stdout);
	pid_t pid = fork();
	if (pid == 0) {
		struct mtbl_reader *rd = mtbl_reader_init(path, NULL);
		if (!rd) _exit(3);
		struct mtbl_iter *it = mtbl_source_iter(mtbl_reader_source(rd));
		const uint8_t *k, *v; size_t lk, lv; int n = 0;
		while (mtbl_iter_next(it, &k, &lk, &v, &lv) == mtbl_res_success) { if (lk != 2 || k[1] != '0' + n || v[0] != n + 1 || v[lv - 1] != 0x40 + n || lv != (n < 3 ? V : v3)) _exit(4); n++; }
		_exit(n == 4 ? 0 : 5);
	}
	int st; waitpid(pid, &st, 0);
	if (!(WIFEXITED(st) && WEXITSTATUS(st) == 0)) viol("C01/big-block-readback-differs", "the reader does not return the four entries of the writer's own block with an entry area of %" PRIu64 " bytes (child status %d)", target, st);
	free(buf); unlink(path);
	STAT("bigblock.cases");
	if (want_sample()) sample("bigblock: writer with block size 6 GiB, 3 values of 2^30 bytes and one of %" PRIu64 ": entry area exactly %" PRIu64 " bytes; decoded independently and read back", v3, target);
	case_hash(target);
	model_free(&m);
}

/* ------------------------------------------------------------------ one value larger than 2 GiB through each block pipeline (thorough, -O2 build) */
static void case_bigvalue(const args_t *a, long c, rng_t *r)
{
	(void)r;
	static const int COMP[] = {MTBL_COMPRESSION_SNAPPY, MTBL_COMPRESSION_NONE, MTBL_COMPRESSION_ZLIB};
	int comp = COMP[c % 3];
	char path[4096]; snprintf(path, sizeof path, "%s/bigvalue-%ld.mtbl", a->workdir, c); unlink(path);
	const uint64_t lv = (1ULL << 31) + 4096 + (uint64_t)c;
	uint8_t *buf = calloc(1, lv);
	if (!buf) { inconclusive("cannot allocate 2 GiB"); return; }
	buf[0] = 0xA1; buf[lv / 2] = 0xB2; buf[lv - 1] = 0xC3;
	fflush(stdout);
	pid_t pid = fork();
	if (pid == 0) {
		struct mtbl_writer_options *wo = mtbl_writer_options_init();
		mtbl_writer_options_set_compression(wo, (mtbl_compression_type)comp);
		struct mtbl_writer *w = mtbl_writer_init(path, wo);
		if (mtbl_writer_add(w, (const uint8_t *)"a", 1, (const uint8_t *)"small", 5) != mtbl_res_success) _exit(3);
		if (mtbl_writer_add(w, (const uint8_t *)"big", 3, buf, lv) != mtbl_res_success) _exit(3);
		if (mtbl_writer_add(w, (const uint8_t *)"z", 1, (const uint8_t *)"tail", 4) != mtbl_res_success) _exit(3);
		mtbl_writer_destroy(&w);
		struct mtbl_reader *rd = mtbl_reader_init(path, NULL);
		if (!rd) _exit(4);
		struct mtbl_iter *it = mtbl_source_iter(mtbl_reader_source(rd));
		const uint8_t *k, *v; size_t lk, l2; int n = 0;
		while (mtbl_iter_next(it, &k, &lk, &v, &l2) == mtbl_res_success) {
			if (n == 1 && (l2 != lv || v[0] != 0xA1 || v[lv / 2] != 0xB2 || v[lv - 1] != 0xC3 || memcmp(v + 1, buf + 1, 1 << 20) != 0)) _exit(5);
			if (n == 0 && (l2 != 5 || memcmp(v, "small", 5))) _exit(5);
			if (n == 2 && (l2 != 4 || memcmp(v, "tail", 4))) _exit(5);
			n++;
		}
		_exit(n == 3 ? 0 : 6);
	}
	int st; waitpid(pid, &st, 0);
	if (!(WIFEXITED(st) && WEXITSTATUS(st) == 0)) viol("C01/value-over-2GiB-not-round-tripped", "a table with one value of %" PRIu64 " bytes (compression %s) was not written and read back (child status %d, %s)", lv, COMP_NAME[comp], st, WIFSIGNALED(st) ? "killed by a signal" : "exit code = step that failed");
	free(buf); unlink(path);
	statf(1, "bigvalue.%s", COMP_NAME[comp]);
	STAT("bigvalue.cases");
	if (want_sample()) sample("bigvalue: three entries, the middle value has %" PRIu64 " bytes, compression %s: written and read back", lv, COMP_NAME[comp]);
	case_hash(lv ^ comp);
}

int main(int argc, char **argv)
{
	args_t a;
	parse_args(argc, argv, &a);
	g_allow_huge_prefix = 1;
	case_fn f = NULL;
	if (!strcmp(a.sub, "c01")) f = case_c01;
	else if (!strcmp(a.sub, "c09")) f = case_c09;
	else if (!strcmp(a.sub, "c10")) f = case_c10;
	else if (!strcmp(a.sub, "big")) f = case_big;
	else if (!strcmp(a.sub, "bigblock")) f = case_bigblock;
	else if (!strcmp(a.sub, "edge")) f = case_edge;
	else if (!strcmp(a.sub, "bigvalue")) f = case_bigvalue;
	else return 98;
	return run_cases(&a, f);
}
