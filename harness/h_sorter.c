/* C06: sorter output is the sorted, merged input regardless of chunking.
 * mkstemp is interposed (ld --wrap) to observe every spill file: where it is created and when.
 *   c06   generated add sequences x memory limits (1 byte .. everything in memory, needs -DMTBL_VERIF) x pools
 */
#include "family.h"
#include "suites.h"
#include <dirent.h>
#include <libgen.h>
#include <pthread.h>

int __real_mkstemp(char *);
static pthread_mutex_t mk_mu = PTHREAD_MUTEX_INITIALIZER;
static char mk_expect_dir[4096];
static uint64_t mk_count, mk_outside;
static char mk_bad[512];

int __wrap_mkstemp(char *tmpl)
{
	pthread_mutex_lock(&mk_mu);
	mk_count++;
	if (mk_expect_dir[0]) {
		char *c = strdup(tmpl); char *d = dirname(c);
		char ra[4096], rb[4096];
		if (!realpath(d, ra) || !realpath(mk_expect_dir, rb) || strcmp(ra, rb) != 0) { mk_outside++; snprintf(mk_bad, sizeof mk_bad, "%s", tmpl); }
		free(c);
	}
	pthread_mutex_unlock(&mk_mu);
	return __real_mkstemp(tmpl);
}
static uint64_t mk_read(void) { pthread_mutex_lock(&mk_mu); uint64_t v = mk_count; pthread_mutex_unlock(&mk_mu); return v; }

static size_t count_dir(const char *d)
{
	DIR *dd = opendir(d); struct dirent *e; size_t n = 0;
	if (!dd) return 0;
	while ((e = readdir(dd))) if (strcmp(e->d_name, ".") && strcmp(e->d_name, "..")) n++;
	closedir(dd);
	return n;
}

/* a second merge function whose result is never longer and usually shorter than its operands: the smaller operand (own comparator).  Commutative and
 * associative, so the expected value of a key is the minimum of everything added for it, whatever the chunking. */
static void min_merge_cb(void *clos, const uint8_t *key, size_t lk, const uint8_t *v0, size_t l0, const uint8_t *v1, size_t l1, uint8_t **mv, size_t *lmv)
{
	(void)clos; (void)key; (void)lk;
	int c = key_cmp(v0, l0, v1, l1);
	const uint8_t *w = c <= 0 ? v0 : v1; size_t lw = c <= 0 ? l0 : l1;
	*mv = malloc(lw ? lw : 1); if (lw) memcpy(*mv, w, lw); *lmv = lw;
}
/* trampoline: optionally uses 640 KiB of stack before calling the real merge function (a callback may; it runs on the caller's thread without a pool
 * and on a pool worker with one) */
typedef struct { void (*fn)(void *, const uint8_t *, size_t, const uint8_t *, size_t, const uint8_t *, size_t, uint8_t **, size_t *); void *clos; int hungry; } tramp_t;
static __attribute__((noinline)) void tramp_hungry(tramp_t *t, const uint8_t *key, size_t lk, const uint8_t *v0, size_t l0, const uint8_t *v1, size_t l1, uint8_t **mv, size_t *lmv)
{
	volatile char pad[640 * 1024];
	pad[0] = 1; pad[sizeof pad / 2] = 2; pad[sizeof pad - 1] = 3;
	t->fn(t->clos, key, lk, v0, l0, v1, l1, mv, lmv);
	if (pad[0] + pad[sizeof pad - 1] != 4) abort();
}
static void tramp_cb(void *clos, const uint8_t *key, size_t lk, const uint8_t *v0, size_t l0, const uint8_t *v1, size_t l1, uint8_t **mv, size_t *lmv)
{
	tramp_t *t = clos;
	if (t->hungry) tramp_hungry(t, key, lk, v0, l0, v1, l1, mv, lmv); else t->fn(t->clos, key, lk, v0, l0, v1, l1, mv, lmv);
}

static const char *ORDER[] = {"random", "sorted", "reverse", "all-equal-keys", "dups-adjacent", "dups-spread"};

static void case_c06(const args_t *a, long c, rng_t *r)
{
	g_prop = "C06";
	/* input */
	int order = rndn(r, 6);
	size_t n = rndn(r, 14) == 0 ? rndn(r, 3) : 1 + rndn(r, a->thorough ? 3000 : 900);
	size_t U = order == 3 ? 1 : 1 + rndn(r, (uint32_t)(n < 4 ? 4 : n));        /* universe size controls duplicate density */
	shape_t sh; gen_shape(r, &sh, 1024, 0); if (sh.pfx_len > 150) sh.pfx_len = 150;
	model_t uni; gen_model(r, &sh, U, rndp(r, 300), &uni); shape_free(&sh);
	if (uni.n == 0) model_push(&uni, (const uint8_t *)"k", 1, (const uint8_t *)"", 0);
	model_t adds; model_init(&adds);          /* in the order added */
	const int minmode = rndn(r, 5) == 0;       /* values are arbitrary byte strings of 0..40 bytes, merge function = smaller operand */
	for (size_t i = 0; i < n; i++) {
		size_t ki;
		switch (order) {
		case 1: ki = i * uni.n / n; break;
		case 2: ki = (n - 1 - i) * uni.n / n; break;
		case 4: ki = (i / 3) % uni.n; break;
		case 5: ki = i % uni.n; break;
		default: ki = rndn(r, (uint32_t)uni.n); break;
		}
		bs_t v;
		if (minmode) { v.n = rndn(r, 41); v.p = xmalloc(v.n ? v.n : 1); for (size_t j = 0; j < v.n; j++) v.p[j] = rndn(r, 3) ? (uint8_t)('a' + rndn(r, 4)) : (uint8_t)rnd64(r); }
		else v = ids_value(pick_nids(r, 0), (uint32_t)ki);
		model_push(&adds, uni.e[ki].k.p, uni.e[ki].k.n, v.p, v.n);
		free(v.p);
	}
	/* expected: distinct keys ascending, value = union of all ids added for the key (minmode: the smallest value added for the key) */
	model_t flat; model_init(&flat);
	for (size_t i = 0; i < adds.n; i++) model_push(&flat, adds.e[i].k.p, adds.e[i].k.n, adds.e[i].v.p, adds.e[i].v.n);
	if (flat.n > 1) qsort(flat.e, flat.n, sizeof(ent_t), flat_cmp);
	model_t want; model_init(&want);
	for (size_t i = 0; i < flat.n;) {
		size_t j = i; uint8_t *acc = NULL; size_t la = 0;
		if (minmode) {
			size_t best = i;
			while (j < flat.n && key_cmp(flat.e[j].k.p, flat.e[j].k.n, flat.e[i].k.p, flat.e[i].k.n) == 0) { if (key_cmp(flat.e[j].v.p, flat.e[j].v.n, flat.e[best].v.p, flat.e[best].v.n) < 0) best = j; j++; }
			model_push(&want, flat.e[i].k.p, flat.e[i].k.n, flat.e[best].v.p, flat.e[best].v.n); i = j;
			continue;
		}
		while (j < flat.n && key_cmp(flat.e[j].k.p, flat.e[j].k.n, flat.e[i].k.p, flat.e[i].k.n) == 0) { uint8_t *o; size_t lo; ms_union(acc, la, flat.e[j].v.p, flat.e[j].v.n, &o, &lo); free(acc); acc = o; la = lo; j++; }
		model_push(&want, flat.e[i].k.p, flat.e[i].k.n, acc, la); free(acc); i = j;
	}
	uint64_t payload = 0; for (size_t i = 0; i < adds.n; i++) payload += adds.e[i].k.n + adds.e[i].v.n;
	/* configuration */
	size_t limit; int request0 = 0;
	switch (rndn(r, 6)) {
	case 0: limit = 1; request0 = rndn(r, 2) == 0; break;      /* half of them ask for 0: below every minimum, clamped to the minimum (1 with the hook) */
	case 1: limit = 40 + rndn(r, 200); break;
	case 2: limit = 300 + rndn(r, 3000); break;
	case 3: limit = payload / (2 + rndn(r, 6)) + 50; break;     /* 2..7 chunks */
	case 4: limit = payload * 3 + 100000; break;               /* everything in memory */
	default: limit = 1000 + rndn(r, 60000); break;
	}
	static const int POOL[] = {-1, -1, -1, 0, 1, 2, 4, 8};
	int poolsz = PICK(r, POOL);
	int outmode = rndn(r, 4);          /* 0,1 iterate fully; 2 abandon early; 3 sorter_write */
	char tdir[4096];
	if (c % 2) snprintf(tdir, sizeof tdir, "%s/sort-%ld", a->workdir, c);
	else { snprintf(tdir, sizeof tdir, "%s/sort %%%%d 100%%%% %%s-%ld", a->workdir, c); STAT("c06.temp_dir_name_with_percent_signs"); }   /* a directory name is data, never a format string */
	mkdir(tdir, 0700);
	if (c % 5 == 3) {
		/* a temp directory whose path is 300..420 bytes long (every component short): legal up to PATH_MAX */
		size_t want_len = 300 + rndn(r, 120), l = strlen(tdir);
		while (l + 42 < sizeof tdir && l < want_len) { memcpy(tdir + l, "/nested-directory-with-a-forty-byte-name", 41); l += 40; tdir[l] = 0; mkdir(tdir, 0700); }
		STAT("c06.temp_dir_path_longer_than_300_bytes");
	}
	pthread_mutex_lock(&mk_mu); snprintf(mk_expect_dir, sizeof mk_expect_dir, "%s", tdir); mk_count = 0; mk_outside = 0; pthread_mutex_unlock(&mk_mu);
	mclos_t mc; memset(&mc, 0, sizeof mc); mc.universe = &uni;
	/* failing merge function (only where the sorter can report it: no worker threads): if no call reports failure, nothing may be missing */
	int failing = 0; size_t fail_want = 0;
	if (!minmode && poolsz > 0 && adds.n > want.n && rndn(r, 25) == 0) {
		/* a pooled sorter cannot report a failed chunk through add(): on the unchanged code iteration then stops the process (assert).
		   Run it in a child: stopping loudly, reporting failure, or a complete and correct output are fine; a silently incomplete output is not. */
		size_t cand = 0, nc = 0;
		for (size_t i = 0; i + 1 < flat.n; i++) if (key_cmp(flat.e[i].k.p, flat.e[i].k.n, flat.e[i + 1].k.p, flat.e[i + 1].k.n) == 0 && rndn(r, (uint32_t)++nc) == 0) cand = i;
		if (nc) {
			fflush(stdout);
			pid_t pid = fork();
			if (pid == 0) {
				int nfd = open("/dev/null", O_WRONLY); dup2(nfd, 2);
				alarm(120);
				mclos_t fm; memset(&fm, 0, sizeof fm); fm.dso_style = 1; fm.have_fail = 1; fm.fail_key = flat.e[cand].k.p; fm.fail_len = flat.e[cand].k.n;
				struct mtbl_threadpool *p2 = mtbl_threadpool_init(poolsz);
				struct mtbl_sorter_options *so2 = mtbl_sorter_options_init();
				char td2[4200]; snprintf(td2, sizeof td2, "%s/poolfail-%ld", a->workdir, c); mkdir(td2, 0700);
				mtbl_sorter_options_set_temp_dir(so2, td2); mtbl_sorter_options_set_max_memory(so2, limit);
				mtbl_sorter_options_set_merge_func(so2, ms_merge_cb, &fm); mtbl_sorter_options_set_threadpool(so2, p2);
				struct mtbl_sorter *s2 = mtbl_sorter_init(so2);
				for (size_t i = 0; i < adds.n; i++) if (mtbl_sorter_add(s2, adds.e[i].k.p, adds.e[i].k.n, adds.e[i].v.p, adds.e[i].v.n) != mtbl_res_success) _exit(0);   /* reported */
				struct mtbl_iter *it2 = mtbl_sorter_iter(s2);
				if (!it2) _exit(0);
				const uint8_t *k, *v; size_t lk, lv, i = 0;
				size_t fw = model_lb(&want, fm.fail_key, fm.fail_len);
				while (mtbl_iter_next(it2, &k, &lk, &v, &lv) == mtbl_res_success) {
					if (i >= want.n || key_cmp(k, lk, want.e[i].k.p, want.e[i].k.n) != 0) _exit(3);
					if (i != fw && (lv != want.e[i].v.n || memcmp(v, want.e[i].v.p, lv) != 0)) _exit(3);
					i++;
				}
				_exit(i == want.n || i == fw ? 0 : 3);      /* complete, or stopped exactly at the failing key */
			}
			int st; waitpid(pid, &st, 0);
			if (WIFEXITED(st) && WEXITSTATUS(st) == 3) viol("C06/pooled-sorter-silently-incomplete-after-merge-failure", "pooled sorter (pool %d, max_memory %zu): the merge function failed inside a chunk job, every call reported success, and the output is missing or misplacing keys", poolsz, limit);
			else statf(1, "c06.failing_merge_pooled.%s", WIFSIGNALED(st) ? (WTERMSIG(st) == SIGALRM ? "hung?" : "process-stopped-loudly") : "reported-or-complete");
			if (WIFSIGNALED(st) && WTERMSIG(st) == SIGALRM) inconclusive("pooled failing-merge child exceeded its watchdog");
			char cmd[4400]; snprintf(cmd, sizeof cmd, "rm -rf '%s/poolfail-%ld'", a->workdir, c); if (system(cmd)) {}
			STAT("c06.failing_merge_pooled.cases");
		}
	}
	if (!minmode && poolsz <= 0 && adds.n > want.n && rndn(r, 12) == 0) {
		size_t cand = 0, nc = 0;
		for (size_t i = 0; i + 1 < flat.n; i++) if (key_cmp(flat.e[i].k.p, flat.e[i].k.n, flat.e[i + 1].k.p, flat.e[i + 1].k.n) == 0 && rndn(r, (uint32_t)++nc) == 0) cand = i;
		if (nc) { failing = 1; mc.have_fail = 1; mc.fail_key = flat.e[cand].k.p; mc.fail_len = flat.e[cand].k.n; fail_want = model_lb(&want, mc.fail_key, mc.fail_len); outmode = 0; }
	}
	struct mtbl_threadpool *pool = poolsz >= 0 ? mtbl_threadpool_init(poolsz) : NULL;
	struct mtbl_sorter_options *so = mtbl_sorter_options_init();
	mtbl_sorter_options_set_temp_dir(so, tdir);
	mtbl_sorter_options_set_max_memory(so, request0 ? 0 : limit);
	if (request0) STAT("c06.max_memory_request_0");
	tramp_t tr = {minmode ? min_merge_cb : ms_merge_cb, &mc, rndn(r, 8) == 0};
	mtbl_sorter_options_set_merge_func(so, tramp_cb, &tr);
	if (minmode) STAT("c06.merge_function.smaller_operand"); else STAT("c06.merge_function.id_union");
	if (tr.hungry) STAT("c06.merge_function_uses_640KiB_of_stack");
	if (pool) mtbl_sorter_options_set_threadpool(so, pool);
	struct mtbl_sorter *s = mtbl_sorter_init(so);
	mtbl_sorter_options_destroy(&so);
	if (want_sample()) sample("c06: %zu adds over %zu distinct keys, order %s, max_memory %zu (payload %" PRIu64 " bytes), pool %d, output via %s", adds.n, uni.n, ORDER[order], limit, payload, poolsz, outmode == 3 ? "mtbl_sorter_write" : outmode == 2 ? "iterator abandoned early" : "iterator");
	/* adds, with the spill-deadline monitor */
	uint64_t since = 0, seen = 0, maxbuf = 0;
	int synchronous = poolsz <= 0;       /* no worker threads: a spill happens inside add */
	int failure_reported = 0;
	for (size_t i = 0; i < adds.n; i++) {
		if (mtbl_sorter_add(s, adds.e[i].k.p, adds.e[i].k.n, adds.e[i].v.p, adds.e[i].v.n) != mtbl_res_success) {
			if (failing && mc.failures_returned) { failure_reported = 1; STAT("c06.failing_merge.reported_by_add"); break; }
			viol("C06/add-refused-before-iteration", "mtbl_sorter_add #%zu returned failure", i); break;
		}
		since += adds.e[i].k.n + adds.e[i].v.n;
		if (synchronous) {
			uint64_t now = mk_read();
			if (now != seen) { seen = now; since = 0; }
			if (since > maxbuf) maxbuf = since;
			if (since >= limit) {
				viol("C06/no-spill-at-memory-limit", "after add #%zu the entries buffered since the last spill hold %" PRIu64 " payload bytes >= max_memory %zu and no spill file was created", i, since, limit);
				since = 0;
			}
			STAT("c06.spill_deadline_checks");
		}
	}
	stat_max("max.buffered_payload_permille_of_limit", limit > 1 ? maxbuf * 1000 / limit : 0);
	/* output */
	const model_t *model = &want;
	struct mtbl_iter *it = NULL;
	if (failing) {
		/* either some call reports the failure, or the output must be complete and correct apart from nothing at all */
		if (!failure_reported) {
			it = mtbl_sorter_iter(s);
			if (!it) { failure_reported = 1; STAT("c06.failing_merge.reported_by_sorter_iter"); }
			else {
				const uint8_t *k, *v; size_t lk, lv, i = 0;
				while (mtbl_iter_next(it, &k, &lk, &v, &lv) == mtbl_res_success) {
					if (i >= want.n || key_cmp(k, lk, want.e[i].k.p, want.e[i].k.n) != 0 || lv != want.e[i].v.n || memcmp(v, want.e[i].v.p, lv) != 0) {
						viol("C06/output-differs-after-unreported-merge-failure", "merge function failed %" PRIu64 " time(s) for key %s, no call reported failure, yet output entry %zu is key %s (%zu value bytes) where key %s (%zu bytes) is expected", mc.failures_returned, hexs(mc.fail_key, mc.fail_len), i, hexs(k, lk), lv, i < want.n ? hexs(want.e[i].k.p, want.e[i].k.n) : "<end>", i < want.n ? want.e[i].v.n : 0);
						break;
					}
					i++;
				}
				if (i < want.n) {
					if (i == fail_want && mc.failures_returned) { failure_reported = 1; STAT("c06.failing_merge.reported_by_next_at_the_key"); }
					else if (mc.failures_returned) viol("C06/output-differs-after-unreported-merge-failure", "iteration ended after %zu of %zu keys (merge failure was for key index %zu)", i, want.n, fail_want);
					else viol("C06/next-fails-but-entry-expected", "iteration ended after %zu of %zu keys", i, want.n);
				}
			}
		}
		STAT("c06.failing_merge.cases");
		mtbl_iter_destroy(&it);
		mtbl_sorter_destroy(&s);
		if (pool) mtbl_threadpool_destroy(&pool);
		size_t left2 = count_dir(tdir);
		if (left2) viol("C06/temp-files-left-behind", "%zu files left in the sorter temp dir after a failing merge", left2);
		rmdir(tdir);
		pthread_mutex_lock(&mk_mu); mk_expect_dir[0] = 0; pthread_mutex_unlock(&mk_mu);
		STAT("c06.sorts");
		case_hash(model_hash(&adds) ^ 0xfa11);
		model_free(&adds); model_free(&flat); model_free(&want); model_free(&uni);
		return;
	}
	if (outmode == 3) {
		char out[4200]; snprintf(out, sizeof out, "%s/out.mtbl", a->workdir); unlink(out);
		/* half of the pooled sorts write into a writer that uses the same pool (small blocks: many ordered jobs behind the sorter's unordered ones) */
		struct mtbl_writer_options *wo = NULL;
		if (pool && poolsz > 0 && rndn(r, 2) == 0) { wo = mtbl_writer_options_init(); mtbl_writer_options_set_threadpool(wo, pool); mtbl_writer_options_set_block_size(wo, 1024); mtbl_writer_options_set_compression(wo, (mtbl_compression_type)rndn(r, 6)); STAT("c06.out.sorter_write_into_writer_on_the_same_pool"); }
		struct mtbl_writer *w = mtbl_writer_init(out, wo);
		if (wo) mtbl_writer_options_destroy(&wo);
		mtbl_res res = mtbl_sorter_write(s, w);
		mtbl_writer_destroy(&w);
		if (res != mtbl_res_success && want.n) viol("C06/sorter_write-failed", "mtbl_sorter_write returned failure");
		struct mtbl_reader *rd = mtbl_reader_init(out, NULL);
		if (!rd) viol("C06/sorter_write-output-unreadable", "output file does not open");
		else { miter_t mi; miter_open(&mi, mtbl_reader_source(rd), model, IK_ITER, NULL, 0, NULL, 0); stat_add("c06.entries_compared", miter_drain(&mi, "sorter_write")); miter_close(&mi); mtbl_reader_destroy(&rd); }
		unlink(out);
		STAT("c06.out.sorter_write");
	} else {
		it = mtbl_sorter_iter(s);
		if (!it) viol("C06/sorter_iter-null", "mtbl_sorter_iter returned NULL");
		else {
			miter_t mi; memset(&mi, 0, sizeof mi);
			mi.it = it; mi.m = model; mi.bd.kind = IK_ITER; mi.last_idx = -1;
			if (outmode == 2) { size_t k = rndn(r, (uint32_t)want.n + 1); for (size_t i = 0; i < k; i++) miter_next(&mi, "sorter-iter"); STAT("c06.out.iter_abandoned"); }
			else { stat_add("c06.entries_compared", miter_drain(&mi, "sorter-iter")); STAT("c06.out.iter_full");
				/* the sorter's iterator also seeks (it is a merger iterator): a short seek history */
				if (want.n && rndp(r, 400)) {
					int nops = 4 + rndn(r, 20);
					for (int q = 0; q < nops; q++) {
						if (rndn(r, 3) == 0) {
							uint8_t pe[3] = {0xff, 0xff, 0xff};
							int tk = rndn(r, 5);
							if (tk == 0 && mi.last_idx >= 0) miter_seek(&mi, want.e[mi.last_idx].k.p, want.e[mi.last_idx].k.n, "sorter-seek");       /* the key just returned */
							else if (tk == 1) miter_seek(&mi, pe, 3, "sorter-seek");                                                             /* past the end */
							else { const ent_t *e = &want.e[rndn(r, want.n)]; miter_seek(&mi, e->k.p, e->k.n, "sorter-seek"); }
							STAT("c06.iter_seeks");
						} else miter_next(&mi, "sorter-seek");
					}
				} }
			miter_check_stable(&mi, "sorter"); miter_forget(&mi);
		}
	}
	/* once iteration has begun, add and write are refused */
	{
		const uint8_t *k = uni.e[0].k.p; size_t lk = uni.e[0].k.n;
		if (mtbl_sorter_add(s, k, lk, (const uint8_t *)"late", 4) != mtbl_res_failure) viol("C06/add-accepted-after-iteration-began", "mtbl_sorter_add succeeded after %s", outmode == 3 ? "mtbl_sorter_write" : "mtbl_sorter_iter");
		char out2[4200]; snprintf(out2, sizeof out2, "%s/out2.mtbl", a->workdir); unlink(out2);
		struct mtbl_writer *w2 = mtbl_writer_init(out2, NULL);
		if (mtbl_sorter_write(s, w2) != mtbl_res_failure) viol("C06/write-accepted-after-iteration-began", "mtbl_sorter_write succeeded after iteration had begun");
		mtbl_writer_destroy(&w2);
		/* the refused write must not have produced entries */
		struct mtbl_reader *rd2 = mtbl_reader_init(out2, NULL);
		if (rd2) { if (mtbl_metadata_count_entries(mtbl_reader_metadata(rd2)) != 0) viol("C06/refused-write-produced-entries", "a refused mtbl_sorter_write wrote entries"); mtbl_reader_destroy(&rd2); }
		unlink(out2);
		STAT("c06.post_iteration_refusal_checks");
	}
	mtbl_iter_destroy(&it);
	mtbl_sorter_destroy(&s);
	if (pool) mtbl_threadpool_destroy(&pool);
	/* spill accounting after everything is joined */
	uint64_t spills = mk_read();
	if (mk_outside) viol("C06/spill-file-outside-temp-dir", "%" PRIu64 " spill files were created outside the configured temporary directory %s, e.g. %s", mk_outside, tdir, mk_bad);
	/* a chunk is closed no later than the add that brings it to the limit: its payload is < limit + (largest single entry) */
	uint64_t maxent = 0; for (size_t i = 0; i < adds.n; i++) if (adds.e[i].k.n + adds.e[i].v.n > maxent) maxent = adds.e[i].k.n + adds.e[i].v.n;
	uint64_t need = payload / (limit + maxent);
	if (need > spills) viol("C06/too-few-spills-for-memory-limit", "%" PRIu64 " payload bytes with max_memory %zu (largest entry %" PRIu64 ") need at least %" PRIu64 " chunks, %" PRIu64 " spill files were created", payload, limit, maxent, need, spills);
	size_t left = count_dir(tdir);
	if (left) viol("C06/temp-files-left-behind", "%zu files left in the sorter temp dir", left);
	rmdir(tdir);
	pthread_mutex_lock(&mk_mu); mk_expect_dir[0] = 0; pthread_mutex_unlock(&mk_mu);
	if (mc.operand_errors) viol("C06/merge-callback-got-foreign-or-stale-operand", "%" PRIu64 " bad merge operands", mc.operand_errors);
	statf(1, "c06.chunks.%s", spills <= 1 ? "1" : spills <= 4 ? "2-4" : spills <= 20 ? "5-20" : ">20");
	statf(1, "c06.pool.%d", poolsz);
	statf(1, "c06.order.%s", ORDER[order]);
	stat_add("c06.spills_observed", spills);
	if (want.n && want.e[0].k.n == 0) STAT("c06.cases_with_empty_key");
	if (adds.n == 0) STAT("c06.empty_input");
	if (adds.n > want.n) { STAT("c06.cases_with_duplicates"); if (spills > 1) STAT("c06.cases_duplicates_across_chunks"); }
	STAT("c06.sorts");
	case_hash(model_hash(&adds) ^ fnv64(&limit, sizeof limit, poolsz + 7));
	model_free(&adds); model_free(&flat); model_free(&want); model_free(&uni);
}

/* ------------------------------------------------------------------ the memory limit as shipped (this sub-command is meant for the build WITHOUT the hook):
 * requests below the library's minimum are raised to that minimum (MIN_SORTER_MEMORY from mtbl-private.h, 10 MiB without the hook) and nothing else;
 * a spill must have happened by the time the payload buffered since the last spill reaches max(request, minimum) */
#include "mtbl-private.h"
static void case_c06min(const args_t *a, long c, rng_t *r)
{
	static const size_t REQ[] = {0, 1, 1u << 20, 4u << 20, MIN_SORTER_MEMORY - 1, MIN_SORTER_MEMORY, MIN_SORTER_MEMORY + (2u << 20)};
	size_t req = REQ[c % 7], eff = req < MIN_SORTER_MEMORY ? MIN_SORTER_MEMORY : req;
	if (MIN_SORTER_MEMORY < (1u << 20)) { if (req >= (1u << 20)) eff = req; }
	char tdir[4200]; snprintf(tdir, sizeof tdir, "%s/min-%ld", a->workdir, c); mkdir(tdir, 0700);
	pthread_mutex_lock(&mk_mu); snprintf(mk_expect_dir, sizeof mk_expect_dir, "%s", tdir); mk_count = 0; mk_outside = 0; pthread_mutex_unlock(&mk_mu);
	struct mtbl_sorter_options *so = mtbl_sorter_options_init();
	mtbl_sorter_options_set_temp_dir(so, tdir);
	mtbl_sorter_options_set_max_memory(so, req);
	mtbl_sorter_options_set_merge_func(so, ms_merge_cb, NULL);
	struct mtbl_sorter *s = mtbl_sorter_init(so);
	mtbl_sorter_options_destroy(&so);
	uint64_t total = (uint64_t)eff + (3u << 20), since = 0, seen = 0, fed = 0, n = 0, maxbuf = 0;
	uint8_t val[1008]; memset(val, 'v', sizeof val);
	uint64_t x = rnd64(r) | 1;
	while (fed < total) {
		uint8_t key[16]; x ^= x << 13; x ^= x >> 7; x ^= x << 17; snprintf((char *)key, sizeof key, "%015" PRIx64, x & 0xfffffffffffffffULL);
		if (mtbl_sorter_add(s, key, 15, val, sizeof val) != mtbl_res_success) { viol("C06/add-refused-before-iteration", "mtbl_sorter_add #%" PRIu64 " returned failure", n); break; }
		n++; fed += 15 + sizeof val; since += 15 + sizeof val;
		uint64_t now = mk_read();
		if (now != seen) { seen = now; since = 0; }
		if (since > maxbuf) maxbuf = since;
		if (since >= eff) { viol("C06/no-spill-at-memory-limit", "max_memory request %zu (library minimum %zu): %" PRIu64 " payload bytes buffered since the last spill and no spill file was created", req, (size_t)MIN_SORTER_MEMORY, since); break; }
		STAT("c06.spill_deadline_checks");
	}
	if (mk_read() == 0 && fed >= total) viol("C06/too-few-spills-for-memory-limit", "request %zu: %" PRIu64 " payload bytes added and no spill file at all", req, fed);
	struct mtbl_iter *it = mtbl_sorter_iter(s);
	const uint8_t *k, *v; size_t lk, lv; uint64_t got = 0; uint8_t prev[16]; int have = 0;
	while (it && mtbl_iter_next(it, &k, &lk, &v, &lv) == mtbl_res_success) {
		if (lk != 15 || (have && memcmp(prev, k, 15) >= 0)) { viol("C06/output-not-strictly-ascending", "key #%" PRIu64 " out of order", got); break; }
		memcpy(prev, k, 15); have = 1; got++;
	}
	if (got != n) viol("C06/output-entry-count", "%" PRIu64 " distinct keys added, %" PRIu64 " returned", n, got);
	if (it) mtbl_iter_destroy(&it);
	mtbl_sorter_destroy(&s);
	pthread_mutex_lock(&mk_mu); if (mk_outside) viol("C06/spill-file-outside-temp-dir", "spill file %s is not inside %s", mk_bad, tdir); mk_expect_dir[0] = 0; pthread_mutex_unlock(&mk_mu);
	if (count_dir(tdir)) viol("C06/temp-files-left-behind", "%zu files left in %s", count_dir(tdir), tdir);
	rmdir(tdir);
	statf(1, "c06min.request.%zu", req);
	stat_max("max.c06min.buffered_payload_permille_of_effective_limit", maxbuf * 1000 / eff);
	STAT("c06min.sorts");
	if (want_sample()) sample("c06min: build %s the hook (minimum %zu): request %zu, %" PRIu64 " entries of 1 KiB, %" PRIu64 " spill files, largest buffered payload %" PRIu64, MIN_SORTER_MEMORY == 1 ? "with" : "without", (size_t)MIN_SORTER_MEMORY, req, n, mk_read(), maxbuf);
	case_hash(req * 977 + (uint64_t)c);
}

/* ------------------------------------------------------------------ one entry larger than 2 GiB (thorough, -O2 build): chunk files must hold it */
static void case_c06big(const args_t *a, long c, rng_t *r)
{
	(void)r;
	const uint64_t LV = (1ULL << 31) + 4096 + (uint64_t)c;
	int poolsz = (c % 2) ? 2 : -1;
	char tdir[4200]; snprintf(tdir, sizeof tdir, "%s/big-%ld", a->workdir, c); mkdir(tdir, 0700);
	uint8_t *buf = calloc(1, LV);
	if (!buf) { inconclusive("cannot allocate 2 GiB"); return; }
	buf[0] = 0xA1; buf[LV / 2] = 0xB2; buf[LV - 1] = 0xC3;
	fflush(stdout);
	pid_t pid = fork();
	if (pid == 0) {
		int nfd = open("/dev/null", O_WRONLY); dup2(nfd, 2);
		struct mtbl_threadpool *pool = poolsz > 0 ? mtbl_threadpool_init(poolsz) : NULL;
		struct mtbl_sorter_options *so = mtbl_sorter_options_init();
		mtbl_sorter_options_set_temp_dir(so, tdir); mtbl_sorter_options_set_max_memory(so, 64u << 20);
		mtbl_sorter_options_set_merge_func(so, ms_merge_cb, NULL);
		if (pool) mtbl_sorter_options_set_threadpool(so, pool);
		struct mtbl_sorter *s = mtbl_sorter_init(so);
		if (mtbl_sorter_add(s, (const uint8_t *)"c", 1, (const uint8_t *)"tail", 4) != mtbl_res_success) _exit(3);
		if (mtbl_sorter_add(s, (const uint8_t *)"b", 1, buf, LV) != mtbl_res_success) _exit(3);
		if (mtbl_sorter_add(s, (const uint8_t *)"a", 1, (const uint8_t *)"head", 4) != mtbl_res_success) _exit(3);
		struct mtbl_iter *it = mtbl_sorter_iter(s);
		if (!it) _exit(4);
		const uint8_t *k, *v; size_t lk, lv; int n = 0;
		while (mtbl_iter_next(it, &k, &lk, &v, &lv) == mtbl_res_success) {
			if (lk != 1 || k[0] != "abc"[n]) _exit(5);
			if (n == 1 && (lv != LV || v[0] != 0xA1 || v[LV / 2] != 0xB2 || v[LV - 1] != 0xC3)) _exit(5);
			if (n != 1 && lv != 4) _exit(5);
			n++;
		}
		_exit(n == 3 ? 0 : 6);
	}
	int st; waitpid(pid, &st, 0);
	if (!(WIFEXITED(st) && WEXITSTATUS(st) == 0)) viol("C06/entry-over-2GiB-not-sorted", "a sorter (pool %d) fed three entries, one with a value of %" PRIu64 " bytes, did not return them (child status 0x%x: %s)", poolsz, LV, st, WIFSIGNALED(st) ? "killed by a signal" : "exit code = step that failed");
	free(buf);
	char cmd[4400]; snprintf(cmd, sizeof cmd, "rm -rf '%s'", tdir); if (system(cmd)) {}
	statf(1, "c06big.pool.%d", poolsz);
	STAT("c06big.sorts");
	if (want_sample()) sample("c06big: entries a, b (value of %" PRIu64 " bytes), c added in reverse order, max_memory 64 MiB, pool %d: spilled and read back", LV, poolsz);
	case_hash(LV + poolsz);
}

int main(int argc, char **argv)
{
	args_t a;
	parse_args(argc, argv, &a);
	if (!strcmp(a.sub, "c06min")) return run_cases(&a, case_c06min);
	if (!strcmp(a.sub, "c06big")) return run_cases(&a, case_c06big);
	if (strcmp(a.sub, "c06")) return 98;
	return run_cases(&a, case_c06);
}
