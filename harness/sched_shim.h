/* Controlled scheduler for the real code of mtbl/threadpool.c, writer.c, sorter.c (no source change):
 * ld --wrap redirects pthread_mutex_*, pthread_cond_*, pthread_create and pthread_join into this shim.
 * All threads are real pthreads, but only the one holding the baton runs; every wrapped call is a
 * scheduling point where a seeded policy (random walk or PCT with d priority-change points) picks the
 * next enabled thread.  The shim keeps its own mutex-owner and condition-wait sets, so it KNOWS the
 * enabled set: "unfinished threads exist and none is enabled" is a deadlock / lost wake-up, reported
 * with the step trace.  Spurious wake-ups are injected with small probability (POSIX allows them).
 */
#ifndef VERIF_SCHED_SHIM_H
#define VERIF_SCHED_SHIM_H

#include "common.h"
#include <pthread.h>

int __real_pthread_mutex_lock(pthread_mutex_t *);
int __real_pthread_mutex_unlock(pthread_mutex_t *);
int __real_pthread_cond_wait(pthread_cond_t *, pthread_mutex_t *);
int __real_pthread_cond_signal(pthread_cond_t *);
int __real_pthread_cond_broadcast(pthread_cond_t *);
int __real_pthread_create(pthread_t *, const pthread_attr_t *, void *(*)(void *), void *);
int __real_pthread_join(pthread_t, void **);

#define SCH_MAXT 64
#define SCH_MAXM 256
#define SCH_TRACE 4096

typedef enum { TS_UNUSED, TS_RUNNABLE, TS_BLOCK_MUTEX, TS_BLOCK_COND, TS_BLOCK_JOIN, TS_FINISHED } tstate_t;
typedef struct {
	tstate_t st; void *obj; int join_target;
	pthread_t real; pthread_cond_t cv;
	void *(*fn)(void *); void *arg;
	int prio; int is_worker, is_rhandler, joined;
} mt_t;
typedef struct { void *addr; int owner; } mx_t;

static struct {
	int active;
	pthread_mutex_t mu;
	mt_t t[SCH_MAXT]; int nt; int cur;
	mx_t m[SCH_MAXM]; int nm;
	rng_t rng;
	int policy;                 /* 0 random walk, 1 sticky random, 2 PCT */
	int pct_d; uint64_t pct_change[4]; int pct_next_low;
	uint64_t steps, switches, spurious, max_steps;
	int spurious_permille;
	uint64_t trace_hash;
	uint16_t trace[SCH_TRACE]; int ntrace;     /* (thread << 8 | op) ring for the witness */
	int live_workers, max_live_workers, live_rhandlers, created;
	void *worker_fn, *rhandler_fn;             /* start routines of mtbl/threadpool.c (addresses from the symbol table) */
	int deadlock;
} S;

static const char *SCH_OP[] = {"start", "lock", "unlock", "wait", "signal", "create", "join", "exit", "yield", "wake", "spurious"};
enum { OP_START, OP_LOCK, OP_UNLOCK, OP_WAIT, OP_SIGNAL, OP_CREATE, OP_JOIN, OP_EXIT, OP_YIELD, OP_WAKE, OP_SPURIOUS };

static __thread int tl_sch_me = -1;          /* pthread_t values are reused after a join: identify managed threads through TLS */
static inline int sch_self(void) { return tl_sch_me; }
static inline void sch_log(int th, int op)
{
	S.trace[S.ntrace++ % SCH_TRACE] = (uint16_t)(th << 8 | op);
	S.trace_hash = (S.trace_hash ^ (uint64_t)(th * 16 + op)) * 0x100000001b3ULL;
}
static void sch_dump(FILE *f, int last)
{
	int st = S.ntrace > last ? S.ntrace - last : 0;
	for (int i = st; i < S.ntrace; i++) fprintf(f, "%sT%d:%s", i > st ? " " : "", S.trace[i % SCH_TRACE] >> 8, SCH_OP[S.trace[i % SCH_TRACE] & 0xff]);
}
static const char *sch_trace_str(int last)
{
	static char b[1400]; int o = 0; int st = S.ntrace > last ? S.ntrace - last : 0;
	for (int i = st; i < S.ntrace && o < 1300; i++) o += snprintf(b + o, sizeof b - o, "%sT%d:%s", i > st ? " " : "", S.trace[i % SCH_TRACE] >> 8, SCH_OP[S.trace[i % SCH_TRACE] & 0xff]);
	return b;
}

static void sch_deadlock(const char *where)
{
	/* unfinished threads and an empty enabled set */
	char st[600]; int o = 0;
	for (int i = 0; i < S.nt; i++) if (S.t[i].st != TS_UNUSED && S.t[i].st != TS_FINISHED)
		o += snprintf(st + o, sizeof st - o, "T%d(%s)=%s ", i, S.t[i].is_worker ? "worker" : S.t[i].is_rhandler ? "result-handler" : "caller",
			      S.t[i].st == TS_BLOCK_MUTEX ? "blocked-on-mutex" : S.t[i].st == TS_BLOCK_COND ? "waiting-on-condition" : S.t[i].st == TS_BLOCK_JOIN ? "joining" : "runnable");
	viol("C13/deadlock-no-thread-can-run", "at %s after %" PRIu64 " scheduling points: %s; last steps: %s", where, S.steps, st, sch_trace_str(60));
	report_finish();
	fflush(stdout);
	_exit(75);      /* the process state is unrecoverable; the runner continues with the next case */
}

static int sch_pick(int me, int me_enabled)
{
	int en[SCH_MAXT], n = 0;
	for (int i = 0; i < S.nt; i++) if (S.t[i].st == TS_RUNNABLE && (i != me || me_enabled)) en[n++] = i;
	if (n == 0) return -1;
	if (S.policy == 2) {
		int best = en[0];
		for (int i = 1; i < n; i++) if (S.t[en[i]].prio > S.t[best].prio) best = en[i];
		return best;
	}
	if (S.policy == 1 && me_enabled && rndn(&S.rng, 4)) return me;       /* sticky: longer runs */
	return en[rndn(&S.rng, n)];
}

static void sch_point_locked(int me, int op)
{
	S.steps++;
	sch_log(me, op);
	if (S.steps > S.max_steps) { inconclusive("schedule exceeded %" PRIu64 " scheduling points (livelock suspected)", S.max_steps); report_finish(); fflush(stdout); _exit(76); }
	/* PCT priority change points */
	if (S.policy == 2) for (int i = 0; i < S.pct_d - 1; i++) if (S.steps == S.pct_change[i]) S.t[me].prio = S.pct_next_low--;
	/* spurious wake-up of a condition waiter */
	if (S.spurious_permille && rndn(&S.rng, 1000) < (unsigned)S.spurious_permille) {
		int w[SCH_MAXT], n = 0;
		for (int i = 0; i < S.nt; i++) if (S.t[i].st == TS_BLOCK_COND) w[n++] = i;
		if (n) { int x = w[rndn(&S.rng, n)]; S.t[x].st = TS_RUNNABLE; S.spurious++; sch_log(x, OP_SPURIOUS); }
	}
	int next = sch_pick(me, 1);
	if (next >= 0 && next != me) {
		S.cur = next; S.switches++;
		__real_pthread_cond_signal(&S.t[next].cv);
		while (S.cur != me) __real_pthread_cond_wait(&S.t[me].cv, &S.mu);
	}
}
/* the caller is blocked: someone else must run */
static void sch_block_locked(int me, const char *where)
{
	int next = sch_pick(me, 0);
	if (next < 0) sch_deadlock(where);
	S.cur = next; S.switches++;
	__real_pthread_cond_signal(&S.t[next].cv);
	while (S.cur != me) __real_pthread_cond_wait(&S.t[me].cv, &S.mu);
}

static mx_t *sch_mutex(void *addr)
{
	for (int i = 0; i < S.nm; i++) if (S.m[i].addr == addr) return &S.m[i];
	for (int i = 0; i < S.nm; i++) if (!S.m[i].addr) { S.m[i].addr = addr; S.m[i].owner = -1; return &S.m[i]; }
	if (S.nm >= SCH_MAXM) { fprintf(stderr, "harness: too many mutexes\n"); _exit(99); }
	S.m[S.nm].addr = addr; S.m[S.nm].owner = -1;
	return &S.m[S.nm++];
}
static void sch_acquire_locked(int me, void *m)
{
	for (;;) {
		mx_t *e = sch_mutex(m);
		if (e->owner < 0) { e->owner = me; return; }
		if (e->owner == me) { viol("C13/relock-of-owned-mutex", "thread T%d locks a mutex it already owns; last steps: %s", me, sch_trace_str(40)); report_finish(); fflush(stdout); _exit(75); }
		S.t[me].st = TS_BLOCK_MUTEX; S.t[me].obj = m;
		sch_block_locked(me, "pthread_mutex_lock");
	}
}
static void sch_release_locked(int me, void *m)
{
	mx_t *e = sch_mutex(m);
	if (e->owner != me) { viol("C13/unlock-of-mutex-not-owned", "thread T%d unlocks a mutex owned by T%d", me, e->owner); }
	e->owner = -1;
	for (int i = 0; i < S.nt; i++) if (S.t[i].st == TS_BLOCK_MUTEX && S.t[i].obj == m) S.t[i].st = TS_RUNNABLE;
}

/* lifetime of the synchronisation objects themselves: the scheduler keeps their state outside the objects, so a call on a destroyed or freed
 * mutex / condition variable would otherwise leave no trace.  (1) every call reads the object's first and last byte from instrumented code: ASan
 * reports a call on freed memory with the caller's stack; (2) destroyed objects are remembered until the same address is initialised again. */
#define SCH_DEAD_MAX 512
static const void *sch_dead[SCH_DEAD_MAX]; static int sch_ndead;
static inline void sch_touch(const volatile void *obj, size_t n) { const volatile char *p = obj; (void)p[0]; (void)p[n - 1]; }
static void sch_mark_dead_locked(const void *obj) { sch_dead[sch_ndead++ % SCH_DEAD_MAX] = obj; }
static void sch_mark_alive_locked(const void *obj) { for (int i = 0; i < SCH_DEAD_MAX; i++) if (sch_dead[i] == obj) sch_dead[i] = NULL; }
static void sch_check_alive_locked(int me, const void *obj, const char *what, const char *call)
{
	for (int i = 0; i < SCH_DEAD_MAX; i++) if (sch_dead[i] == obj) {
		char sig[96]; snprintf(sig, sizeof sig, "C13/%s-on-destroyed-%s", call, what);
		viol(sig, "thread T%d calls %s on a %s that has already been destroyed; last steps: %s", me, call, what, sch_trace_str(30));
		sch_dead[i] = NULL;
		return;
	}
}

int __wrap_pthread_mutex_lock(pthread_mutex_t *m)
{
	if (!S.active) return __real_pthread_mutex_lock(m);
	sch_touch(m, sizeof *m);
	__real_pthread_mutex_lock(&S.mu);
	int me = sch_self();
	sch_check_alive_locked(me, m, "mutex", "pthread_mutex_lock");
	sch_point_locked(me, OP_LOCK);
	sch_acquire_locked(me, m);
	__real_pthread_mutex_unlock(&S.mu);
	return 0;
}
int __wrap_pthread_mutex_unlock(pthread_mutex_t *m)
{
	if (!S.active) return __real_pthread_mutex_unlock(m);
	sch_touch(m, sizeof *m);
	__real_pthread_mutex_lock(&S.mu);
	int me = sch_self();
	sch_check_alive_locked(me, m, "mutex", "pthread_mutex_unlock");
	sch_release_locked(me, m);
	sch_point_locked(me, OP_UNLOCK);
	__real_pthread_mutex_unlock(&S.mu);
	return 0;
}
int __wrap_pthread_cond_wait(pthread_cond_t *c, pthread_mutex_t *m)
{
	if (!S.active) return __real_pthread_cond_wait(c, m);
	sch_touch(c, sizeof *c); sch_touch(m, sizeof *m);
	__real_pthread_mutex_lock(&S.mu);
	int me = sch_self();
	sch_check_alive_locked(me, c, "condition-variable", "pthread_cond_wait");
	S.steps++; sch_log(me, OP_WAIT);
	sch_release_locked(me, m);
	S.t[me].st = TS_BLOCK_COND; S.t[me].obj = c;
	sch_block_locked(me, "pthread_cond_wait");
	sch_acquire_locked(me, m);
	__real_pthread_mutex_unlock(&S.mu);
	return 0;
}
int __wrap_pthread_cond_signal(pthread_cond_t *c)
{
	if (!S.active) return __real_pthread_cond_signal(c);
	sch_touch(c, sizeof *c);
	__real_pthread_mutex_lock(&S.mu);
	int me = sch_self();
	sch_check_alive_locked(me, c, "condition-variable", "pthread_cond_signal");
	int w[SCH_MAXT], n = 0;
	for (int i = 0; i < S.nt; i++) if (S.t[i].st == TS_BLOCK_COND && S.t[i].obj == c) w[n++] = i;
	if (n) { int x = w[rndn(&S.rng, n)]; S.t[x].st = TS_RUNNABLE; sch_log(x, OP_WAKE); }
	sch_point_locked(me, OP_SIGNAL);
	__real_pthread_mutex_unlock(&S.mu);
	return 0;
}
int __wrap_pthread_cond_broadcast(pthread_cond_t *c)
{
	if (!S.active) return __real_pthread_cond_broadcast(c);
	sch_touch(c, sizeof *c);
	__real_pthread_mutex_lock(&S.mu);
	int me = sch_self();
	sch_check_alive_locked(me, c, "condition-variable", "pthread_cond_broadcast");
	for (int i = 0; i < S.nt; i++) if (S.t[i].st == TS_BLOCK_COND && S.t[i].obj == c) { S.t[i].st = TS_RUNNABLE; sch_log(i, OP_WAKE); }
	sch_point_locked(me, OP_SIGNAL);
	__real_pthread_mutex_unlock(&S.mu);
	return 0;
}
int __wrap_pthread_mutex_init(pthread_mutex_t *m, const pthread_mutexattr_t *a)
{
	(void)a;
	if (S.active) { __real_pthread_mutex_lock(&S.mu); sch_mutex(m)->owner = -1; sch_mark_alive_locked(m); __real_pthread_mutex_unlock(&S.mu); }
	memset(m, 0, sizeof *m);
	return 0;
}
int __wrap_pthread_mutex_destroy(pthread_mutex_t *m)
{
	if (S.active) {
		__real_pthread_mutex_lock(&S.mu);
		mx_t *e = sch_mutex(m);
		if (e->owner >= 0) viol("C13/destroy-of-locked-mutex", "a mutex owned by T%d is destroyed; last steps: %s", e->owner, sch_trace_str(30));
		e->addr = NULL;
		sch_mark_dead_locked(m);
		__real_pthread_mutex_unlock(&S.mu);
	}
	return 0;
}
int __wrap_pthread_cond_init(pthread_cond_t *c, const pthread_condattr_t *a)
{
	(void)a;
	if (S.active) { __real_pthread_mutex_lock(&S.mu); sch_mark_alive_locked(c); __real_pthread_mutex_unlock(&S.mu); }
	memset(c, 0, sizeof *c);
	return 0;
}
int __wrap_pthread_cond_destroy(pthread_cond_t *c)
{
	if (S.active) {
		__real_pthread_mutex_lock(&S.mu);
		for (int i = 0; i < S.nt; i++) if (S.t[i].st == TS_BLOCK_COND && S.t[i].obj == c) viol("C13/destroy-of-condition-with-waiters", "a condition variable with waiter T%d is destroyed", i);
		sch_mark_dead_locked(c);
		__real_pthread_mutex_unlock(&S.mu);
	}
	return 0;
}

static void *sch_trampoline(void *v)
{
	int me = (int)(intptr_t)v;
	tl_sch_me = me;
	__real_pthread_mutex_lock(&S.mu);
	while (S.cur != me) __real_pthread_cond_wait(&S.t[me].cv, &S.mu);
	sch_log(me, OP_START);
	__real_pthread_mutex_unlock(&S.mu);
	void *ret = S.t[me].fn(S.t[me].arg);
	__real_pthread_mutex_lock(&S.mu);
	S.steps++; sch_log(me, OP_EXIT);
	S.t[me].st = TS_FINISHED;
	if (S.t[me].is_worker) S.live_workers--;
	if (S.t[me].is_rhandler) S.live_rhandlers--;
	for (int i = 0; i < S.nt; i++) if (S.t[i].st == TS_BLOCK_JOIN && S.t[i].join_target == me) S.t[i].st = TS_RUNNABLE;
	int next = sch_pick(me, 0);
	if (next < 0) sch_deadlock("thread exit");
	S.cur = next; S.switches++;
	__real_pthread_cond_signal(&S.t[next].cv);
	__real_pthread_mutex_unlock(&S.mu);
	return ret;
}
int __wrap_pthread_create(pthread_t *th, const pthread_attr_t *attr, void *(*fn)(void *), void *arg)
{
	if (!S.active) return __real_pthread_create(th, attr, fn, arg);
	__real_pthread_mutex_lock(&S.mu);
	int me = sch_self();
	if (S.nt >= SCH_MAXT) { fprintf(stderr, "harness: too many threads\n"); _exit(99); }
	int idx = S.nt++;
	mt_t *t = &S.t[idx];
	memset(t, 0, sizeof *t);
	t->st = TS_RUNNABLE; t->fn = fn; t->arg = arg;
	t->is_worker = (void *)fn == S.worker_fn; t->is_rhandler = (void *)fn == S.rhandler_fn;
	t->prio = S.pct_d + 1 + (int)rndn(&S.rng, 1000);
	memset(&t->cv, 0, sizeof t->cv);
	S.created++;
	if (t->is_worker) { S.live_workers++; if (S.live_workers > S.max_live_workers) S.max_live_workers = S.live_workers; }
	if (t->is_rhandler) S.live_rhandlers++;
	int r = __real_pthread_create(&t->real, attr, sch_trampoline, (void *)(intptr_t)idx);
	if (r != 0) { fprintf(stderr, "harness: pthread_create failed\n"); _exit(99); }
	*th = t->real;
	sch_point_locked(me, OP_CREATE);
	__real_pthread_mutex_unlock(&S.mu);
	return 0;
}
int __wrap_pthread_join(pthread_t th, void **ret)
{
	if (!S.active) return __real_pthread_join(th, ret);
	__real_pthread_mutex_lock(&S.mu);
	int me = sch_self(), target = -1;
	for (int i = 0; i < S.nt; i++) if (S.t[i].st != TS_UNUSED && !S.t[i].joined && pthread_equal(S.t[i].real, th)) target = i;
	if (target >= 0) S.t[target].joined = 1;
	sch_point_locked(me, OP_JOIN);
	while (target >= 0 && S.t[target].st != TS_FINISHED) {
		S.t[me].st = TS_BLOCK_JOIN; S.t[me].join_target = target;
		sch_block_locked(me, "pthread_join");
	}
	__real_pthread_mutex_unlock(&S.mu);
	return __real_pthread_join(th, ret);
}
/* an explicit scheduling point for job bodies / callbacks */
static void sch_yield(void)
{
	if (!S.active) return;
	__real_pthread_mutex_lock(&S.mu);
	sch_point_locked(sch_self(), OP_YIELD);
	__real_pthread_mutex_unlock(&S.mu);
}

static void sch_begin(uint64_t seed, int policy, int pct_d, uint64_t est_steps, int spurious_permille)
{
	static int inited;
	if (!inited) { memset(&S.mu, 0, sizeof S.mu); inited = 1; }   /* a zeroed glibc mutex is a valid default mutex; the wrapped init must not be used for the shim's own lock */
	/* not memset: S.mu stays */
	for (int i = 0; i < SCH_MAXT; i++) S.t[i].st = TS_UNUSED;
	S.nt = 1; S.cur = 0; S.nm = 0;
	memset(S.m, 0, sizeof S.m);
	rng_init(&S.rng, seed, 77);
	S.policy = policy; S.pct_d = pct_d; S.pct_next_low = pct_d - 1;
	for (int i = 0; i < 4; i++) S.pct_change[i] = est_steps ? 1 + rnd64(&S.rng) % est_steps : 0;
	S.steps = S.switches = S.spurious = 0; S.max_steps = 400000;
	S.spurious_permille = spurious_permille;
	S.trace_hash = 0xcbf29ce484222325ULL; S.ntrace = 0;
	S.live_workers = S.max_live_workers = S.live_rhandlers = S.created = 0;
	memset(&S.t[0], 0, sizeof S.t[0]);
	tl_sch_me = 0;
	S.t[0].st = TS_RUNNABLE; S.t[0].real = pthread_self(); S.t[0].prio = pct_d + 500;
	memset(&S.t[0].cv, 0, sizeof S.t[0].cv);
	S.active = 1;
}
/* returns 0 when every managed thread has finished */
static int sch_end(void)
{
	int unfinished = 0;
	S.active = 0;
	for (int i = 1; i < S.nt; i++) if (S.t[i].st != TS_FINISHED && S.t[i].st != TS_UNUSED) unfinished++;
	return unfinished;
}
#define SCHED_WRAPS "pthread_mutex_lock", "pthread_mutex_unlock", "pthread_mutex_init", "pthread_mutex_destroy", "pthread_cond_wait", "pthread_cond_signal", "pthread_cond_broadcast", "pthread_cond_init", "pthread_cond_destroy", "pthread_create", "pthread_join"
#endif
