/* Input generators shared by the table-oriented harnesses: key/value shapes, writer
 * configurations, and "write this model with the real writer" helpers. */
#ifndef VERIF_GEN_H
#define VERIF_GEN_H

#include "common.h"
#include <mtbl.h>

/* ------------------------------------------------------------------ writer configuration */
typedef struct {
	int comp;             /* mtbl_compression_type */
	int level;            /* -10000 = library default (level setter not called) */
	int level_class;      /* index into LEVEL_CLASS names */
	size_t block_size;    /* as passed to the setter (1 is clamped to 1024 by the library) */
	size_t restart;
	int pool;             /* -1 none, else thread count (0 allowed) */
	size_t prefix_len;    /* foreign bytes before the table */
	int use_fd;           /* writer_init_fd (always when prefix_len > 0) */
	int madvise;          /* reader option */
	int verify;           /* reader option */
	int madvise_env;      /* MTBL_READER_MADVISE_RANDOM: -1 unset, 0, 1 (overrides the option; must not affect anything else) */
	int pool_used;        /* the pool has already served a pooled sorter (unordered jobs) before the writer gets it */
} wcfg_t;

static const char *COMP_NAME[] = {"none", "snappy", "zlib", "lz4", "lz4hc", "zstd"};
static const char *LEVEL_CLASS[] = {"default", "below-min", "min", "mid", "max", "above-max"};
#define LEVEL_DEFAULT (-10000)

static int g_allow_huge_prefix;     /* harnesses that map (not read) their files may place the table behind a sparse >= 2 GiB / 4 GiB hole */
#define HUGE_PREFIX(c) ((c)->prefix_len > (1u << 24))
static inline size_t eff_block_size(const wcfg_t *c) { return c->block_size < 1024 ? 1024 : c->block_size; }

static inline void gen_wcfg(rng_t *r, wcfg_t *c)
{
	static const size_t BS[] = {1, 1024, 1024, 1500, 4096, 8192, 65536};
	static const size_t RI[] = {1, 2, 3, 4, 7, 16, 16, 17, 1000};
	static const int POOL[] = {-1, -1, -1, 0, 1, 2, 4, 8};
	static const size_t PFX[] = {0, 0, 0, 0, 1, 13, 512, 4097, 3000, 4095};     /* incl. offsets near the end of a page */
	static const int below[] = {INT_MIN / 2, -100000, -50, -7, -2};
	static const int above[] = {23, 100, 100000, INT_MAX / 2};
	memset(c, 0, sizeof *c);
	c->comp = rndn(r, 6);
	c->level_class = rndn(r, 6);
	switch (c->level_class) {
	case 0: c->level = LEVEL_DEFAULT; break;
	case 1: c->level = PICK(r, below); break;
	case 2: c->level = rndp(r, 500) ? -1 : (rndp(r, 500) ? 0 : 1); break;
	case 3: { static const int mid[] = {3, 6, 9, 10, 12}; c->level = PICK(r, mid); break; }
	case 4: { static const int mx[] = {9, 12, 19, 22}; c->level = PICK(r, mx); break; }
	default: c->level = PICK(r, above); break;
	}
	c->block_size = PICK(r, BS);
	c->restart = PICK(r, RI);
	c->pool = PICK(r, POOL);
	c->prefix_len = PICK(r, PFX);
	if (g_allow_huge_prefix && rndn(r, 25) == 0) { static const size_t HP[] = {(1ULL << 31) + 7, (1ULL << 32) - 300, (1ULL << 32) + 5, 5 * (1ULL << 32) + 12345}; c->prefix_len = PICK(r, HP); }
	c->use_fd = c->prefix_len > 0 || rndp(r, 300);
	c->madvise = rndp(r, 300);
	c->verify = rndp(r, 500);
	c->madvise_env = rndn(r, 4) == 0 ? (int)rndn(r, 2) : -1;
	c->pool_used = c->pool > 0 && rndn(r, 3) == 0;
}
static inline const char *wcfg_str(const wcfg_t *c)
{
	static char b[200];
	snprintf(b, sizeof b, "comp=%s level=%d(%s) bs=%zu ri=%zu pool=%d%s prefix=%zu fd=%d", COMP_NAME[c->comp], c->level,
		 LEVEL_CLASS[c->level_class], c->block_size, c->restart, c->pool, c->pool_used ? "(used by a sorter before)" : "", c->prefix_len, c->use_fd);
	return b;
}
static inline void wcfg_stats(const wcfg_t *c)
{
	statf(1, "cfg.comp.%s", COMP_NAME[c->comp]);
	statf(1, "cfg.level.%s", LEVEL_CLASS[c->level_class]);
	statf(1, "cfg.block_size.%zu", c->block_size);
	statf(1, "cfg.restart.%zu", c->restart);
	statf(1, "cfg.pool.%d", c->pool);
	statf(1, "cfg.prefix.%zu", c->prefix_len);
	if (c->prefix_len >= (1ULL << 32) - 300) STAT("cfg.table_offsets_at_or_above_2^32");
}

static inline struct mtbl_writer_options *wcfg_options(const wcfg_t *c, struct mtbl_threadpool *pool)
{
	struct mtbl_writer_options *wo = mtbl_writer_options_init();
	mtbl_writer_options_set_compression(wo, (mtbl_compression_type)c->comp);
	if (c->level != LEVEL_DEFAULT) mtbl_writer_options_set_compression_level(wo, c->level);
	mtbl_writer_options_set_block_size(wo, c->block_size);
	mtbl_writer_options_set_block_restart_interval(wo, c->restart);
	if (pool) mtbl_writer_options_set_threadpool(wo, pool);
	return wo;
}

static inline uint8_t foreign_byte(size_t i) { return (uint8_t)(0xC3 ^ (i * 131) ^ (i >> 8)); }

/* open a writer per cfg on `path` (which must not exist). Returns the writer; *pfd (>=0 when
 * the fd path was used) must be closed by the caller after mtbl_writer_destroy. */
static inline struct mtbl_writer *open_writer(const char *path, const wcfg_t *c, struct mtbl_threadpool *pool, int *pfd)
{
	struct mtbl_writer_options *wo = wcfg_options(c, pool);
	struct mtbl_writer *w;
	*pfd = -1;
	if (c->use_fd || c->prefix_len) {
		int fd = open(path, O_RDWR | O_CREAT | O_EXCL, 0644);
		if (fd < 0) { fprintf(stderr, "harness: cannot create %s: %s\n", path, strerror(errno)); exit(99); }
		if (HUGE_PREFIX(c)) {
			/* a sparse hole: the foreign bytes are zeros, every table offset is >= 2^31 / 2^32 */
			if (ftruncate(fd, c->prefix_len) != 0) exit(99);
			lseek(fd, c->prefix_len, SEEK_SET);
		} else if (c->prefix_len) {
			uint8_t *p = xmalloc(c->prefix_len);
			for (size_t i = 0; i < c->prefix_len; i++) p[i] = foreign_byte(i);
			if (pwrite(fd, p, c->prefix_len, 0) != (ssize_t)c->prefix_len) exit(99);
			free(p);
			lseek(fd, c->prefix_len, SEEK_SET);
		}
		w = mtbl_writer_init_fd(fd, wo);
		*pfd = fd;
	} else {
		w = mtbl_writer_init(path, wo);
	}
	mtbl_writer_options_destroy(&wo);
	return w;
}

/* write the (sorted, unique) model with the real writer; every add must be accepted */
static inline int write_model(const char *path, const wcfg_t *c, const model_t *m, struct mtbl_threadpool *pool)
{
	int fd;
	unlink(path);
	struct mtbl_writer *w = open_writer(path, c, pool, &fd);
	if (!w) { viol("writer/init-null", "mtbl_writer_init returned NULL for fresh path %s", path); return -1; }
	int bad = 0;
	for (size_t i = 0; i < m->n; i++) {
		if (mtbl_writer_add(w, m->e[i].k.p, m->e[i].k.n, m->e[i].v.p, m->e[i].v.n) != mtbl_res_success) {
			if (!bad) viol("writer/refused-increasing-key", "add #%zu key=%s refused although strictly increasing (%s)", i, hexs(m->e[i].k.p, m->e[i].k.n), wcfg_str(c));
			bad = 1;
		}
	}
	mtbl_writer_destroy(&w);
	if (fd >= 0) close(fd);
	return bad ? -1 : 0;
}
static inline struct mtbl_threadpool *wcfg_pool(const wcfg_t *c)
{
	struct mtbl_threadpool *p = c->pool >= 0 ? mtbl_threadpool_init((size_t)c->pool) : NULL;
	if (p && c->pool_used) {
		/* a pool is a long-lived object shared by whatever needs it: let a small multi-chunk sorter use it first */
		struct mtbl_sorter_options *so = mtbl_sorter_options_init();
		mtbl_sorter_options_set_temp_dir(so, g_workdir);
		mtbl_sorter_options_set_max_memory(so, 600);
		mtbl_sorter_options_set_threadpool(so, p);
		struct mtbl_sorter *s = mtbl_sorter_init(so);
		mtbl_sorter_options_destroy(&so);
		for (int i = 0; i < 64; i++) { uint8_t k[8], v[40]; memset(v, i, sizeof v); int lk = snprintf((char *)k, sizeof k, "p%03d", (i * 37) % 64); mtbl_sorter_add(s, k, lk, v, sizeof v); }
		struct mtbl_iter *it = mtbl_sorter_iter(s);
		const uint8_t *k, *v; size_t lk, lv, n = 0;
		while (it && mtbl_iter_next(it, &k, &lk, &v, &lv) == mtbl_res_success) n++;
		if (it) mtbl_iter_destroy(&it);
		mtbl_sorter_destroy(&s);
		if (n != 64) inconclusive("the warm-up sorter on the pool returned %zu of 64 entries", n);
		STAT("cfg.pool_used_by_sorter_before");
	}
	return p;
}
static inline struct mtbl_reader *open_reader(const char *path, const wcfg_t *c)
{
	struct mtbl_reader_options *ro = mtbl_reader_options_init();
	mtbl_reader_options_set_madvise_random(ro, c->madvise);
	mtbl_reader_options_set_verify_checksums(ro, c->verify);
	if (c->madvise_env >= 0) { setenv("MTBL_READER_MADVISE_RANDOM", c->madvise_env ? "1" : "0", 1); STAT("cfg.madvise_env_set"); } else unsetenv("MTBL_READER_MADVISE_RANDOM");
	struct mtbl_reader *r = mtbl_reader_init(path, ro);
	mtbl_reader_options_destroy(&ro);
	return r;
}

/* ------------------------------------------------------------------ key / value shapes */
enum { KS_TINY, KS_PREFIXED, KS_RANDOM, KS_SEQ, KS_MIXED, KS_N };
static const char *KS_NAME[] = {"tiny-alphabet", "long-shared-prefix", "random-bytes", "sequential", "mixed"};

typedef struct {
	int kshape;
	size_t pfx_len;          /* KS_PREFIXED */
	uint8_t *pfx;
	int vclass_weights[6];   /* 0: empty, 1: 1..30, 2: 100..300, 3: 128..1000, 4: >=16KiB, 5: > block */
	int compressible;
	size_t block_size;
	int boundary_permille;   /* chance that a value length / extra key length sits on a 2^7k boundary */
	int allow_2m;
} shape_t;

static const uint8_t TINY_ALPHA[4] = {0x00, 0xff, 'a', 'b'};

static inline void gen_one_key(rng_t *r, const shape_t *s, uint8_t **pk, size_t *plk, size_t seq)
{
	uint8_t *k; size_t lk;
	int sh = s->kshape;
	if (sh == KS_MIXED) sh = rndn(r, 4);
	switch (sh) {
	case KS_TINY:
		lk = rndn(r, 6);
		if (rndp(r, 20)) lk = 30 + rndn(r, 171);
		k = xmalloc(lk);
		for (size_t i = 0; i < lk; i++) k[i] = TINY_ALPHA[rndn(r, 4)];
		break;
	case KS_PREFIXED: {
		size_t sl = rndn(r, 5);
		lk = s->pfx_len + sl;
		k = xmalloc(lk);
		if (s->pfx_len) memcpy(k, s->pfx, s->pfx_len);
		/* sometimes a proper prefix of the shared prefix itself */
		if (s->pfx_len && rndp(r, 30)) { lk = rndn(r, s->pfx_len + 1); break; }
		for (size_t i = 0; i < sl; i++) k[s->pfx_len + i] = rndp(r, 500) ? TINY_ALPHA[rndn(r, 4)] : (uint8_t)rnd64(r);
		break;
	}
	case KS_RANDOM:
		lk = 1 + rndn(r, 40);
		if (rndp(r, 30)) lk = 128 + rndn(r, 200);
		k = xmalloc(lk);
		for (size_t i = 0; i < lk; i++) k[i] = (uint8_t)rnd64(r);
		break;
	default: /* KS_SEQ */
		k = xmalloc(16);
		lk = snprintf((char *)k, 16, "k%07zu", seq * 3 + rndn(r, 3));
		break;
	}
	*pk = k; *plk = lk;
}

/* lengths on varint / fast-path boundaries (2^7, 2^14, 2^21) and their neighbours */
static inline size_t boundary_len(rng_t *r, int allow_2m)
{
	static const size_t B[] = {127, 128, 129, 255, 256, 257, 16383, 16384, 16385, 32768, 49152};
	if (allow_2m && rndn(r, 12) == 0) { static const size_t H[] = {2097151, 2097152, 2097153}; return PICK(r, H); }
	return PICK(r, B);
}

static inline void gen_value(rng_t *r, const shape_t *s, uint8_t **pv, size_t *plv)
{
	int tot = 0, cls = 0;
	for (int i = 0; i < 6; i++) tot += s->vclass_weights[i];
	int x = rndn(r, tot);
	for (int i = 0; i < 6; i++) { if (x < s->vclass_weights[i]) { cls = i; break; } x -= s->vclass_weights[i]; }
	size_t lv;
	switch (cls) {
	case 0: lv = 0; break;
	case 1: lv = 1 + rndn(r, 30); break;
	case 2: lv = 100 + rndn(r, 201); break;
	case 3: lv = 128 + rndn(r, 873); break;
	case 4: lv = 16384 + rndn(r, 4000); break;
	default: lv = s->block_size + rndn(r, s->block_size / 2 + 10); break;
	}
	if (s->boundary_permille && rndp(r, s->boundary_permille)) { lv = boundary_len(r, s->allow_2m); STAT("gen.boundary_length_values"); }
	uint8_t *v = xmalloc(lv);
	if (s->compressible) {
		uint8_t a = (uint8_t)rnd64(r), b = (uint8_t)rnd64(r);
		size_t period = 1 + rndn(r, 7);
		for (size_t i = 0; i < lv; i++) v[i] = (i % period) ? a : b;
	} else {
		for (size_t i = 0; i < lv; i += 8) { uint64_t z = rnd64(r); memcpy(v + i, &z, lv - i < 8 ? lv - i : 8); }
	}
	*pv = v; *plv = lv;
}

static inline void gen_shape(rng_t *r, shape_t *s, size_t block_size, int allow_huge)
{
	memset(s, 0, sizeof *s);
	s->kshape = rndn(r, KS_N);
	s->block_size = block_size < 1024 ? 1024 : block_size;
	s->compressible = rndp(r, 500);
	if (s->kshape == KS_PREFIXED) {
		static const size_t PL[] = {0, 3, 20, 100, 127, 128, 129, 200, 300};
		s->pfx_len = PICK(r, PL);
		if (allow_huge && rndp(r, 60)) s->pfx_len = 16384 + rndn(r, 300);
		s->pfx = xmalloc(s->pfx_len);
		for (size_t i = 0; i < s->pfx_len; i++) s->pfx[i] = rndp(r, 700) ? 'p' : (uint8_t)rnd64(r);
	}
	/* value class weights: mostly small, with tails */
	int w[6] = {10, 50, 20, 10, 0, 0};
	if (rndp(r, 200)) w[0] = 100;                     /* mostly empty values */
	if (rndp(r, 150)) w[3] = 60;
	if (allow_huge && rndp(r, 80)) w[4] = 3;
	if (rndp(r, 120) && s->block_size <= 8192) w[5] = 5; /* entries larger than a block */
	memcpy(s->vclass_weights, w, sizeof w);
	s->boundary_permille = rndp(r, 300) ? (allow_huge ? 20 : 5) : 0;
	s->allow_2m = allow_huge && rndp(r, 250);
}
static inline void shape_free(shape_t *s) { free(s->pfx); s->pfx = NULL; }

/* a sorted, duplicate-free model of about n entries */
static inline void gen_model(rng_t *r, const shape_t *s, size_t n, int want_empty_key, model_t *m)
{
	model_init(m);
	for (size_t i = 0; i < n; i++) {
		uint8_t *k, *v; size_t lk, lv;
		gen_one_key(r, s, &k, &lk, i);
		gen_value(r, s, &v, &lv);
		model_push(m, k, lk, v, lv);
		free(k); free(v);
	}
	if (want_empty_key) {
		uint8_t *v; size_t lv;
		gen_value(r, s, &v, &lv);
		model_push(m, (const uint8_t *)"", 0, v, lv);
		free(v);
	}
	/* keys whose length, and whose shared prefix with the following key, sit exactly on a varint boundary */
	if (s->boundary_permille && n >= 2) {
		int pairs = 1 + rndn(r, 3);
		for (int q = 0; q < pairs; q++) {
			size_t B = boundary_len(r, 0);
			if (B > 20000) B = 16384;
			uint8_t *k = xmalloc(B + 2), *v; size_t lv;
			for (size_t i = 0; i < B; i++) k[i] = (uint8_t)(rndp(r, 600) ? 'q' : rnd64(r));
			gen_value(r, s, &v, &lv); model_push(m, k, B, v, lv); free(v);
			k[B] = (uint8_t)rnd64(r); k[B + 1] = (uint8_t)rnd64(r);
			gen_value(r, s, &v, &lv); model_push(m, k, B + 1 + rndn(r, 2), v, lv); free(v);
			free(k);
			STAT("gen.boundary_length_key_pairs");
		}
	}
	/* key pairs that stress the index separator (shortest key >= last key of a block and < first key of the next), placed so that a block
	   boundary falls between them (the first key's value does not leave room for the second): a key and its extension, adjacent byte values,
	   and the carry shapes  P a FF.. | P (a+1) 00..  of big-endian counters */
	if (n >= 2 && s->block_size <= 8192 && rndp(r, 250)) {
		int pairs = 1 + rndn(r, 6);
		for (int q = 0; q < pairs; q++) {
			uint8_t k1[24], k2[24]; size_t l1, l2, pl = rndn(r, 7);
			for (size_t i = 0; i < pl; i++) k1[i] = rndp(r, 500) ? (uint8_t)('a' + rndn(r, 3)) : (uint8_t)rnd64(r);
			uint8_t a = (uint8_t)rndn(r, 255);                    /* a + 1 does not wrap */
			memcpy(k2, k1, pl);
			int shape = rndn(r, 8);
			switch (shape) {
			case 0: k1[pl] = a; l1 = pl + 1; memcpy(k2, k1, l1); l2 = l1 + 1 + rndn(r, 3); for (size_t i = l1; i < l2; i++) k2[i] = (uint8_t)rnd64(r); break;   /* K | K x.. */
			case 1: k1[pl] = a; l1 = pl + 1; memcpy(k2, k1, l1); k2[l1] = 0; l2 = l1 + 1; break;                                                     /* K | K 00 */
			case 2: k1[pl] = a; k1[pl + 1] = 0xff; k1[pl + 2] = 0xff; l1 = pl + 3; k2[pl] = a + 1; k2[pl + 1] = 0; l2 = pl + 2; break;              /* P a FF FF | P a+1 00 */
			case 3: k1[pl] = a; k1[pl + 1] = 0xff; l1 = pl + 2; k2[pl] = a + 1; l2 = pl + 1; break;                                                 /* P a FF | P a+1 */
			case 4: k1[pl] = a; l1 = pl + 1; k2[pl] = a + 1; l2 = pl + 1; break;                                                                    /* P a | P a+1 */
			case 5: k1[pl] = a; k1[pl + 1] = 0xff; k1[pl + 2] = 0xff; k1[pl + 3] = 0xff; l1 = pl + 4; k2[pl] = a + 1; k2[pl + 1] = 0; k2[pl + 2] = 0; l2 = pl + 3; break;
			case 6: k1[pl] = a; k1[pl + 1] = 0; l1 = pl + 2; k2[pl] = a; k2[pl + 1] = 1; l2 = pl + 2; break;                                          /* P a 00 | P a 01 */
			default: k1[pl] = a; k1[pl + 1] = 0xff; k1[pl + 2] = 'z'; k1[pl + 3] = 'z'; l1 = pl + 4; k2[pl] = a + 1; k2[pl + 1] = 0xff; k2[pl + 2] = 'z'; k2[pl + 3] = 'z'; l2 = pl + 4; break;  /* carry in the middle */
			}
			size_t lv1 = s->block_size + rndn(r, 32);
			uint8_t *v1 = xmalloc(lv1), *v2; size_t lv2;
			for (size_t i = 0; i < lv1; i++) v1[i] = (uint8_t)(i * 7 + q);
			model_push(m, k1, l1, v1, lv1); free(v1);
			gen_value(r, s, &v2, &lv2); model_push(m, k2, l2, v2, lv2); free(v2);
			statf(1, "gen.separator_pair_at_block_boundary.shape%d", shape);
		}
		STAT("gen.models_with_separator_pairs");
	}
	model_sort(m);
	model_dedupe(m);
	/* the smallest entry the format can hold (empty key, empty value: three header bytes), in half of those also alone in its block
	   because the entry after it does not fit beside it */
	if (m->n && m->e[0].k.n == 0 && rndp(r, 500)) {
		bs_free(&m->e[0].v); m->e[0].v = bs_dup((const uint8_t *)"", 0);
		STAT("gen.empty_key_with_empty_value");
		if (m->n >= 2 && s->block_size <= 8192 && rndp(r, 500)) {
			size_t lv = s->block_size + rndn(r, 64);
			bs_free(&m->e[1].v); m->e[1].v.p = xmalloc(lv); m->e[1].v.n = lv;
			for (size_t i = 0; i < lv; i++) m->e[1].v.p[i] = (uint8_t)(i * 11);
			STAT("gen.three_byte_entry_alone_in_its_block");
		}
	}
}
static inline size_t gen_count(rng_t *r, int thorough)
{
	switch (rndn(r, 12)) {
	case 0: return 0;
	case 1: return 1;
	case 2: return 2;
	case 3: case 4: case 5: return 3 + rndn(r, 40);
	case 6: case 7: case 8: return 40 + rndn(r, 300);
	case 9: case 10: return 300 + rndn(r, 1700);
	default: return thorough ? 2000 + rndn(r, 20000) : 500 + rndn(r, 2500);
	}
}
static inline uint64_t model_hash(const model_t *m)
{
	uint64_t h = fnv64(&m->n, sizeof m->n, 0);
	for (size_t i = 0; i < m->n; i++) { h = fnv64(m->e[i].k.p, m->e[i].k.n, h); h = fnv64(&m->e[i].v.n, sizeof(size_t), h); h = fnv64(m->e[i].v.p, m->e[i].v.n > 16 ? 16 : m->e[i].v.n, h); }
	return h;
}
static inline void model_shape_stats(const model_t *m)
{
	for (size_t i = 0; i < m->n; i++) {
		if (m->e[i].k.n == 0) STAT("gen.empty_key");
		if (m->e[i].k.n >= 128) STAT("gen.key_ge_128");
		if (m->e[i].k.n >= 16384) STAT("gen.key_ge_16k");
		if (m->e[i].v.n == 0) STAT("gen.empty_value");
		if (m->e[i].v.n >= 128) STAT("gen.value_ge_128");
		if (m->e[i].v.n >= 16384) STAT("gen.value_ge_16k");
		if (i && lcp(m->e[i - 1].k.p, m->e[i - 1].k.n, m->e[i].k.p, m->e[i].k.n) >= 128) STAT("gen.shared_prefix_ge_128");
		if (i && has_prefix(m->e[i].k.p, m->e[i].k.n, m->e[i - 1].k.p, m->e[i - 1].k.n)) STAT("gen.neighbour_is_proper_prefix");
	}
	stat_add("gen.entries", m->n);
}

#endif
