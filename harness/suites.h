/* Source-level check suites shared by reader / merger / sorter / fileset harnesses:
 *   suite_lookups      derived query sets for get / get_prefix / get_range, drained against the model
 *   suite_seek_product all (position, target) pairs on a small source, per iterator kind
 *   suite_history      random long histories on several interleaved iterators
 */
#ifndef VERIF_SUITES_H
#define VERIF_SUITES_H

#include "itercheck.h"

/* optional physical layout of model entries (reader tables): block index, restart run, block-first/last */
typedef struct { uint32_t block, run; uint8_t first, last; } epos_t;

/* ------------------------------------------------------------------ lookups */
static inline void lookup_stats(const model_t *m, const char *kind, const uint8_t *q, size_t lq, size_t answers, const qset_t *seps)
{
	statf(1, "lookups.%s", kind);
	statf(1, answers ? "lookups.%s.nonempty_answer" : "lookups.%s.empty_answer", kind);
	if (lq == 0) statf(1, "lookups.%s.empty_query", kind);
	if (m->n) {
		if (key_cmp(q, lq, m->e[0].k.p, m->e[0].k.n) < 0) statf(1, "lookups.%s.before_first", kind);
		if (key_cmp(q, lq, m->e[m->n - 1].k.p, m->e[m->n - 1].k.n) > 0) statf(1, "lookups.%s.after_last", kind);
	}
	if (seps) for (size_t i = 0; i < seps->n; i++) if (key_cmp(q, lq, seps->q[i].p, seps->q[i].n) == 0) { statf(1, "lookups.%s.exactly_on_separator", kind); break; }
}

static inline void suite_lookups(const struct mtbl_source *src, const model_t *m, const qset_t *qs, const qset_t *seps,
				 const epos_t *ep, rng_t *r, int all_pairs_limit, int sampled_pairs)
{
	miter_t mi;
	for (size_t i = 0; i < qs->n; i++) {
		const bs_t *q = &qs->q[i];
		miter_open(&mi, src, m, IK_GET, q->p, q->n, NULL, 0);
		size_t n = miter_drain(&mi, "lookup");
		miter_close(&mi);
		lookup_stats(m, "get", q->p, q->n, n, seps);
		miter_open(&mi, src, m, IK_PREFIX, q->p, q->n, NULL, 0);
		n = miter_drain(&mi, "lookup");
		miter_close(&mi);
		lookup_stats(m, "get_prefix", q->p, q->n, n, seps);
		/* a query strictly between two blocks: predecessor in one block, successor in the next */
		if (ep && m->n) {
			size_t lb = model_lb(m, q->p, q->n);
			if (lb > 0 && lb < m->n && key_cmp(m->e[lb].k.p, m->e[lb].k.n, q->p, q->n) != 0 && ep[lb - 1].block != ep[lb].block) STAT("lookups.query_between_two_blocks");
		}
	}
	/* ranges: all pairs on small query sets, seeded sample otherwise (always some inverted and equal pairs) */
	if ((int)qs->n <= all_pairs_limit) {
		for (size_t i = 0; i < qs->n; i++)
			for (size_t j = 0; j < qs->n; j++) {
				miter_open(&mi, src, m, IK_RANGE, qs->q[i].p, qs->q[i].n, qs->q[j].p, qs->q[j].n);
				size_t n = miter_drain(&mi, "lookup");
				miter_close(&mi);
				lookup_stats(m, "get_range", qs->q[i].p, qs->q[i].n, n, seps);
				if (i > j) STAT("lookups.get_range.inverted"); else if (i == j) STAT("lookups.get_range.equal_bounds");
			}
		STAT("lookups.range_all_pairs_tables");
	} else {
		for (int t = 0; t < sampled_pairs && qs->n; t++) {
			size_t i = rndn(r, qs->n), j;
			switch (t % 5) {
			case 0: j = i; break;
			case 1: j = i ? rndn(r, i) : 0; break;                       /* inverted */
			case 2: j = i + rndn(r, 4); break;                           /* narrow */
			default: j = i + rndn(r, qs->n - i); break;
			}
			if (j >= qs->n) j = qs->n - 1;
			miter_open(&mi, src, m, IK_RANGE, qs->q[i].p, qs->q[i].n, qs->q[j].p, qs->q[j].n);
			size_t n = miter_drain(&mi, "lookup");
			miter_close(&mi);
			lookup_stats(m, "get_range", qs->q[i].p, qs->q[i].n, n, seps);
			if (i > j) STAT("lookups.get_range.inverted"); else if (i == j) STAT("lookups.get_range.equal_bounds");
		}
	}
}

/* ------------------------------------------------------------------ (position, target) product */
static inline const char *pos_state(const miter_t *mi, const epos_t *ep)
{
	if (mi->failed) return "exhausted";
	if (mi->last_idx < 0) return mi->ops ? "sought-unread" : "fresh";
	if (ep) { if (ep[mi->last_idx].first) return "at-block-first"; if (ep[mi->last_idx].last) return "at-block-last"; }
	return "mid";
}
static inline const char *target_rel(const miter_t *mi, const epos_t *ep, size_t tlb, const uint8_t *t, size_t lt)
{
	const model_t *m = mi->m;
	if (tlb >= m->n) return "past-end";
	if (mi->last_idx < 0) return "no-current";
	size_t cur = (size_t)mi->last_idx;
	if (key_cmp(t, lt, m->e[cur].k.p, m->e[cur].k.n) == 0) return "key-just-returned";
	if (!ep) return tlb > cur ? "forward" : "backward";
	if (ep[tlb].block < ep[cur].block) return "earlier-block";
	if (ep[tlb].block > ep[cur].block) return "later-block";
	if (ep[tlb].run == ep[cur].run) return tlb > cur ? "same-run-forward" : "same-run-backward";
	return ep[tlb].run > ep[cur].run ? "later-run-same-block" : "earlier-run-same-block";
}

typedef struct { ikind_t kind; bs_t a, b; } bspec_t;

static inline void reach(miter_t *mi, const struct mtbl_source *src, const model_t *m, const bspec_t *bs, const bs_t *seed, size_t j)
{
	miter_open(mi, src, m, bs->kind, bs->a.p, bs->a.n, bs->b.p, bs->b.n);
	if (seed) miter_seek(mi, seed->p, seed->n, "reach");
	for (size_t i = 0; i < j; i++) miter_next(mi, "reach");
}

/* every target must be >= the range start of the bound */
/* optional extra seek targets for the product and the histories (index separator keys recovered by the independent decoder) */
static const qset_t *g_extra_targets;

static inline void suite_seek_product(const struct mtbl_source *src, const model_t *m, const epos_t *ep,
				      const bspec_t *bounds, size_t nbounds, rng_t *r)
{
	for (size_t bi = 0; bi < nbounds; bi++) {
		const bspec_t *bs = &bounds[bi];
		ibound_t bd = {bs->kind, bs->a, bs->b};
		size_t start = bound_start(m, &bd);
		/* targets: stored keys >= start, their successors, a key past the end (plus the key just returned, added per position) */
		qset_t tg; memset(&tg, 0, sizeof tg);
		for (size_t i = start; i < m->n; i++) {
			qset_add(&tg, m->e[i].k.p, m->e[i].k.n);
			uint8_t *t = xmalloc(m->e[i].k.n + 1);
			memcpy(t, m->e[i].k.p, m->e[i].k.n); t[m->e[i].k.n] = 0;
			qset_add(&tg, t, m->e[i].k.n + 1);
			free(t);
		}
		if (bs->kind != IK_ITER) qset_add(&tg, bs->a.p, bs->a.n);        /* the range start itself */
		if (g_extra_targets) for (size_t i = 0; i < g_extra_targets->n; i++) { qset_add(&tg, g_extra_targets->q[i].p, g_extra_targets->q[i].n); STAT("product.separator_targets"); }
		{ uint8_t pe[3] = {0xff, 0xff, 0xff}; if (m->n == 0 || key_cmp(pe, 3, m->e[m->n - 1].k.p, m->e[m->n - 1].k.n) > 0) qset_add(&tg, pe, 3); }
		qset_finish(&tg);
		/* drop targets below the range start (outside the statement) */
		size_t w = 0;
		for (size_t i = 0; i < tg.n; i++) {
			if (bs->kind != IK_ITER && key_cmp(tg.q[i].p, tg.q[i].n, bs->a.p, bs->a.n) < 0) { free(tg.q[i].p); continue; }
			tg.q[w++] = tg.q[i];
		}
		tg.n = w;
		/* ways of reaching a position */
		size_t span = 0; for (size_t i = start; i < m->n && inbound(&bd, &m->e[i]); i++) span++;
		size_t nseeds = tg.n;
		for (size_t way = 0; way <= nseeds; way++) {
			const bs_t *seed = way ? &tg.q[way - 1] : NULL;
			/* fresh: every j up to exhaustion(+1); sought: j in 0..2 for every seed, all j for a spread of 5 seeds */
			size_t maxj = span + 1;
			if (seed && !(nseeds <= 5 || (way - 1) % ((nseeds + 4) / 5) == 0)) maxj = 2;
			for (size_t j = 0; j <= maxj; j++) {
				for (size_t ti = 0; ti <= tg.n; ti++) {
					miter_t mi, other;
					reach(&mi, src, m, bs, seed, j);
					const uint8_t *t; size_t lt;
					uint8_t *just = NULL;
					if (ti == tg.n) {   /* the key just returned */
						if (mi.last_idx < 0) { miter_close(&mi); continue; }
						just = xmalloc(m->e[mi.last_idx].k.n); lt = m->e[mi.last_idx].k.n; memcpy(just, m->e[mi.last_idx].k.p, lt); t = just;
					} else { t = tg.q[ti].p; lt = tg.q[ti].n; }
					size_t tlb = model_lb(m, t, lt);
					statf(1, "matrix.%s.%s.%s", IK_NAME[bs->kind], pos_state(&mi, ep), target_rel(&mi, ep, tlb, t, lt));
					/* something happens to another iterator of the same source in between */
					int poke = rndn(r, 3);
					if (poke) { miter_open(&other, src, m, IK_ITER, NULL, 0, NULL, 0); if (poke == 2 && m->n) { size_t x = rndn(r, m->n); miter_seek(&other, m->e[x].k.p, m->e[x].k.n, "other"); } miter_next(&other, "other"); }
					/* sometimes one more seek in between (past the end, or any target): positions reached through two seeks */
					int two = rndn(r, 4) == 0;
					if (two) {
						uint8_t pe[3] = {0xff, 0xff, 0xff};
						if (rndn(r, 2) && (m->n == 0 || key_cmp(pe, 3, m->e[m->n - 1].k.p, m->e[m->n - 1].k.n) > 0)) miter_seek(&mi, pe, 3, "product-mid");
						else if (tg.n) { const bs_t *q = &tg.q[rndn(r, (uint32_t)tg.n)]; miter_seek(&mi, q->p, q->n, "product-mid"); }
						STAT("product.two_seek_prefixes");
					}
					miter_seek(&mi, t, lt, "product");
					if (poke) { miter_next(&other, "other"); miter_close(&other); }
					miter_next(&mi, "product"); miter_next(&mi, "product"); miter_next(&mi, "product");
					/* a quarter of the trials run on to the end: a wrong block hop shows only when the block is left */
					if (rndn(r, 4) == 0) { miter_drain(&mi, "product-drain"); STAT("product.drained_to_end"); }
					miter_close(&mi);
					free(just);
					STAT("seek_checks");
				}
			}
		}
		qset_free(&tg);
	}
}

/* ------------------------------------------------------------------ random histories */
static inline void pick_bound(rng_t *r, const model_t *m, bspec_t *bs)
{
	memset(bs, 0, sizeof *bs);
	bs->kind = (ikind_t)rndn(r, 4);
	if (m->n == 0) { bs->kind = IK_ITER; return; }
	const ent_t *e = &m->e[rndn(r, m->n)];
	switch (bs->kind) {
	case IK_GET: bs->a = bs_dup(e->k.p, e->k.n); break;
	case IK_PREFIX: bs->a = bs_dup(e->k.p, e->k.n ? rndn(r, e->k.n + 1) : 0); break;
	case IK_RANGE: { const ent_t *f = &m->e[rndn(r, m->n)];
		if (key_cmp(e->k.p, e->k.n, f->k.p, f->k.n) > 0) { const ent_t *t = e; e = f; f = t; }
		bs->a = bs_dup(e->k.p, e->k.n); bs->b = bs_dup(f->k.p, f->k.n); break; }
	default: break;
	}
}
static inline void bspec_free(bspec_t *b) { bs_free(&b->a); bs_free(&b->b); }

/* optional fault hook for mergers: arm a one-off merge-function failure for a key (returns 0 if not supported) */
static int (*g_arm_merge_failure)(const uint8_t *key, size_t lk);
static int (*g_merge_failure_fired)(void);

static inline void suite_history(const struct mtbl_source *src, const model_t *m, rng_t *r, int nops)
{
	enum { MAXI = 4 };
	miter_t it[MAXI]; bool live[MAXI] = {false}; bspec_t bs[MAXI];
	int nlive = 0;
	for (int op = 0; op < nops; op++) {
		int i = rndn(r, MAXI);
		if (!live[i]) {
			pick_bound(r, m, &bs[i]);
			miter_open(&it[i], src, m, bs[i].kind, bs[i].a.p, bs[i].a.n, bs[i].b.p, bs[i].b.n);
			live[i] = true; nlive++;
			continue;
		}
		miter_t *mi = &it[i];
		int what = rndn(r, 100);
		if (g_arm_merge_failure && what < 6 && !mi->failed && mi->pos < m->n && inbound(&mi->bd, &m->e[mi->pos])) {
			/* the merge function fails once for the key this next would produce (if it needs merging): the call must fail,
			   stay failed until a seek, and a retry by seek to that key must produce the full fold */
			const ent_t *e = &m->e[mi->pos];
			if (g_arm_merge_failure(e->k.p, e->k.n)) {
				const uint8_t *k, *v; size_t lk, lv;
				miter_check_stable(mi, "history"); miter_forget(mi);
				mtbl_res res = mtbl_iter_next(mi->it, &k, &lk, &v, &lv);
				if (g_merge_failure_fired()) {
					STAT("history.merge_failures_injected");
					if (res == mtbl_res_success) viol(sigf("merge-failure-not-surfaced"), "the merge function failed for key %s but next returned key %s", hexs(e->k.p, e->k.n), hexs(k, lk));
					if (mtbl_iter_next(mi->it, &k, &lk, &v, &lv) == mtbl_res_success) viol(sigf("next-succeeds-after-failure-without-seek"), "after a merge failure at key %s the following next returned key %s (%zu value bytes) without a seek", hexs(e->k.p, e->k.n), hexs(k, lk), lv);
					mi->failed = true;
					if (rndn(r, 2)) { miter_seek(mi, e->k.p, e->k.n, "retry-after-merge-failure"); miter_next(mi, "retry-after-merge-failure"); STAT("history.retry_seek_after_merge_failure"); }
				} else {
					/* the key did not need merging: an ordinary next happened; account for it */
					g_arm_merge_failure(NULL, 0);
					if (res == mtbl_res_success) { if (key_cmp(k, lk, e->k.p, e->k.n) != 0) viol(sigf("next-wrong-key"), "history: next returned %s, model expects %s", hexs(k, lk), hexs(e->k.p, e->k.n)); mi->last_idx = (long)mi->pos; mi->pos++; mi->lk = k; mi->llk = lk; mi->lv = v; mi->llv = lv; mi->ck = bs_dup(k, lk); mi->cv = bs_dup(v, lv); mi->have_last = true; }
					else { viol(sigf("next-fails-but-entry-expected"), "history: next failed, model expects key %s", hexs(e->k.p, e->k.n)); mi->failed = true; }
				}
				continue;
			}
		}
		if (what < 45) { miter_next(mi, "history"); }
		else if (what < 92) {
			/* choose a target >= range start */
			ibound_t bd = {bs[i].kind, bs[i].a, bs[i].b};
			size_t start = bound_start(m, &bd);
			const uint8_t *t = NULL; size_t lt = 0; uint8_t tmp[8]; uint8_t *heap = NULL;
			int tk = rndn(r, 6);
			const char *cls = "random-stored";
			if (m->n == 0 || start >= m->n) { tmp[0] = 0xff; tmp[1] = 0xff; tmp[2] = 0xff; t = tmp; lt = 3; cls = "past-end"; }
			else if (tk == 0 && mi->last_idx >= 0) { t = m->e[mi->last_idx].k.p; lt = m->e[mi->last_idx].k.n; cls = "key-just-returned"; }
			else if (tk == 1 && mi->last_idx > (long)start) { t = m->e[mi->last_idx - 1].k.p; lt = m->e[mi->last_idx - 1].k.n; cls = "predecessor-of-current"; }
			else if (tk == 2) { tmp[0] = 0xff; tmp[1] = 0xff; tmp[2] = 0xff; tmp[3] = 0xff; t = tmp; lt = 4; cls = "past-end"; }
			else if (tk == 5 && g_extra_targets && g_extra_targets->n) { const bs_t *q = &g_extra_targets->q[rndn(r, (uint32_t)g_extra_targets->n)]; t = q->p; lt = q->n; cls = "index-separator"; }
			else if (tk == 3) { const ent_t *e = &m->e[start + rndn(r, m->n - start)]; heap = xmalloc(e->k.n + 1); memcpy(heap, e->k.p, e->k.n); heap[e->k.n] = (uint8_t)rndn(r, 256); t = heap; lt = e->k.n + 1; cls = "extension-of-stored"; }
			else if (tk == 4 && mi->last_idx >= 0 && (size_t)mi->last_idx + 1 < m->n) { size_t x = mi->last_idx + 1 + rndn(r, 3); if (x >= m->n) x = m->n - 1; t = m->e[x].k.p; lt = m->e[x].k.n; cls = "short-forward"; }
			else { const ent_t *e = &m->e[start + rndn(r, m->n - start)]; t = e->k.p; lt = e->k.n; }
			/* t might still be below the range start for prefix/range bounds built from `a`: enforce */
			if (bs[i].kind != IK_ITER && key_cmp(t, lt, bs[i].a.p, bs[i].a.n) < 0) { t = bs[i].a.p; lt = bs[i].a.n; cls = "range-start"; }
			statf(1, "history.seek_target.%s", cls);
			if (mi->failed) STAT("history.seek_after_exhaustion");
			miter_seek(mi, t, lt, "history");
			free(heap);
		} else {
			miter_close(mi); bspec_free(&bs[i]); live[i] = false; nlive--;
			STAT("history.iterator_destroyed_midway");
		}
		if (nlive > 1) STAT("history.ops_with_other_iterators_open");
	}
	for (int i = 0; i < MAXI; i++) if (live[i]) { miter_close(&it[i]); bspec_free(&bs[i]); }
	stat_add("history.ops", nops);
	STAT("histories");
}

#endif
