/* C11: every well-formed MTBL file is readable, not only the ones today's writer emits.
 *   files      random legal encodings (v1/v2, restart sets, non-maximal sharing, separator choices, block cuts,
 *              compression by direct library calls, foreign prefix) of generated content -> real reader:
 *              iteration, derived lookups, seek histories, directed block-gap seeks
 *   big        one data block above 4 GiB (sparse file): 64-bit restart array, restart points above UINT32_MAX
 *   selfcheck  the independent decoder against the checked-in sample files and the real reader
 */
#include "gen.h"
#include "refdec.h"
#include "refenc.h"
#include "suites.h"
#include <sys/mman.h>
#include <dirent.h>

static void directed_gap_seeks(const struct mtbl_source *src, const model_t *m, const enc_stats_t *st)
{
	/* at every block boundary: seek into the gap after the block's last key, then (no next) to that last key */
	for (size_t b = 0; b < st->blocks; b++) {
		size_t li = st->block_first[b + 1] - 1;
		const ent_t *L = &m->e[li];
		uint8_t *g = xmalloc(L->k.n + 1); memcpy(g, L->k.p, L->k.n); g[L->k.n] = 0;
		miter_t mi;
		miter_open(&mi, src, m, IK_ITER, NULL, 0, NULL, 0);
		miter_seek(&mi, g, L->k.n + 1, "gap");
		miter_seek(&mi, L->k.p, L->k.n, "gap");
		miter_next(&mi, "gap"); miter_next(&mi, "gap");
		/* and: off the end of the table, then back to the last key */
		uint8_t pe[3] = {0xff, 0xff, 0xff};
		if (key_cmp(pe, 3, m->e[m->n - 1].k.p, m->e[m->n - 1].k.n) > 0) {
			miter_seek(&mi, pe, 3, "gap");
			miter_seek(&mi, L->k.p, L->k.n, "gap");
			miter_next(&mi, "gap");
		}
		/* seek to the separator itself and just past it */
		miter_seek(&mi, st->seps[b].p, st->seps[b].n, "gap"); miter_next(&mi, "gap");
		miter_seek(&mi, g, L->k.n + 1, "gap"); miter_next(&mi, "gap"); miter_next(&mi, "gap");
		miter_close(&mi);
		free(g);
		STAT("c11.directed_gap_sequences");
	}
}

static void case_files(const args_t *a, long c, rng_t *r)
{
	g_prop = "C11";
	model_t m; shape_t sh; enc_opts_t o; enc_stats_t st;
	gen_enc_opts(r, &o);
	gen_shape(r, &sh, 4096, 0);
	if (sh.kshape == KS_PREFIXED && sh.pfx_len > 300) sh.pfx_len = 300;
	size_t n = rndn(r, 12) == 0 ? rndn(r, 3) : 3 + rndn(r, a->thorough ? 1200 : 400);
	gen_model(r, &sh, n, rndp(r, 200), &m);
	shape_free(&sh);
	uint8_t *img; size_t len;
	if (refenc_build(&m, &o, r, &img, &len, &st) != 0) { inconclusive("encoder failed"); model_free(&m); return; }
	/* self-consistency of the codec: the independent decoder must read back the model */
	rd_file_t f;
	int ok = rd_parse(img, len, (int64_t)o.prefix_len, &f) == 0;
	if (ok) {
		size_t gi = 0;
		for (size_t b = 0; b < f.n_blocks && ok; b++) {
			if (f.blocks[b].crc_stored != f.blocks[b].crc_calc || !f.blocks[b].restarts_valid) ok = 0;
			for (size_t j = 0; j < f.blocks[b].n_ents && ok; j++, gi++) {
				const rd_ent_t *e = &f.blocks[b].ents[j];
				if (gi >= m.n || key_cmp(e->k.p, e->k.n, m.e[gi].k.p, m.e[gi].k.n) != 0 || e->vlen != m.e[gi].v.n || (e->vlen && memcmp(e->v, m.e[gi].v.p, e->vlen) != 0)) ok = 0;
			}
		}
		if (gi != m.n || f.version != o.version || !f.index.restarts_valid) ok = 0;
	}
	if (!ok) { inconclusive("codec self-check failed (encoder/decoder disagree): %s [%s]", f.err, enc_opts_str(&o)); rd_free(&f); free(img); enc_stats_free(&st); model_free(&m); return; }
	rd_free(&f);
	char path[4096]; snprintf(path, sizeof path, "%s/c11-%ld.mtbl", a->workdir, c);
	write_file(path, img, len);
	free(img);
	wcfg_t rc; memset(&rc, 0, sizeof rc); rc.verify = rndn(r, 2); rc.madvise = rndn(r, 2);
	struct mtbl_reader *rd = open_reader(path, &rc);
	if (!rd) viol("C11/reader-rejects-well-formed-file", "mtbl_reader_init returned NULL for a well-formed file (%s, %zu entries)", enc_opts_str(&o), m.n);
	else {
		const struct mtbl_source *src = mtbl_reader_source(rd);
		miter_t mi;
		miter_open(&mi, src, &m, IK_ITER, NULL, 0, NULL, 0);
		size_t got = miter_drain(&mi, "iterate");
		miter_close(&mi);
		stat_add("c11.entries_iterated", got);
		if (m.n) {
			/* derived lookups (sampled keys + every block-first/last key + every separator) */
			qset_t qs, seps; memset(&qs, 0, sizeof qs); memset(&seps, 0, sizeof seps);
			size_t stride = m.n > 60 ? m.n / 60 : 1;
			for (size_t i = 0; i < m.n; i += stride) qset_add_neighbours(&qs, m.e[i].k.p, m.e[i].k.n, 3);
			for (size_t b = 0; b < st.blocks; b++) {
				qset_add_neighbours(&qs, m.e[st.block_first[b]].k.p, m.e[st.block_first[b]].k.n, 2);
				qset_add_neighbours(&qs, m.e[st.block_first[b + 1] - 1].k.p, m.e[st.block_first[b + 1] - 1].k.n, 2);
				qset_add_neighbours(&qs, st.seps[b].p, st.seps[b].n, 2);
				qset_add(&seps, st.seps[b].p, st.seps[b].n);
				if (st.blocks > 40 && b % (st.blocks / 40) != 0) continue;
			}
			qset_add(&qs, (const uint8_t *)"", 0);
			qset_finish(&qs);
			suite_lookups(src, &m, &qs, &seps, NULL, r, 12, 60);
			qset_free(&qs); qset_free(&seps);
			suite_history(src, &m, r, 60 + rndn(r, 100));
			suite_history(src, &m, r, 60 + rndn(r, 100));
			directed_gap_seeks(src, &m, &st);
		}
		mtbl_reader_destroy(&rd);
	}
	statf(1, "c11.files.v%d.%s", o.version, COMP_NAME[o.comp]);
	statf(1, "c11.restart_density.permille_%d", o.restart_permille);
	statf(1, "c11.share_mode.%d", o.share_mode);
	statf(1, "c11.blocks_mode.%d", o.blocks_mode);
	for (int k = 0; k < 6; k++) statf(st.sep_kind[k], "c11.separator.%s", SEP_KIND[k]);
	stat_add("c11.nonmaximal_shares", st.nonmaximal_shares);
	stat_add("c11.single_entry_blocks", st.single_entry_blocks);
	stat_add("c11.blocks", st.blocks);
	if (o.prefix_len) STAT("c11.files_with_foreign_prefix");
	if (rc.verify) STAT("c11.files_read_with_verify_checksums");
	STAT("c11.files");
	if (want_sample()) sample("files: %zu entries in %zu blocks, %s", m.n, st.blocks, enc_opts_str(&o));
	case_hash(model_hash(&m) ^ fnv64(&o, sizeof o, 0));
	enc_stats_free(&st);
	unlink(path);
	model_free(&m);
}

/* ---- one data block above 4 GiB, built sparsely */
static void case_big(const args_t *a, long c, rng_t *r)
{
	g_prop = "C11";
	char path[4096]; snprintf(path, sizeof path, "%s/c11-big-%ld.mtbl", a->workdir, c);
	uint64_t V = 0xFFFFFF00ULL + (uint64_t)rndn(r, 200);       /* one value just below 4 GiB (vlen is a 32-bit varint) */
	if (c % 3 == 1) { V = 0xFFFFFFFFULL - rndn(r, 6); STAT("c11.big.entry_with_suffix_plus_value_ge_2^32"); }   /* key suffix + value length does not fit 32 bits */
	const int straddle = (c % 3 == 2);   /* entry area <= UINT32_MAX < whole block: 32-bit restart array in a block larger than 4 GiB */
	const size_t prefix = (c % 2) ? 13 : 0;
	/* logical content: entry 0 has the huge zero value; entries 1..8 small */
	model_t m; model_init(&m);
	enum { NE = 9 };
	char keys[NE][24]; uint8_t small[NE][128]; size_t sl[NE];
	for (int i = 0; i < NE; i++) { snprintf(keys[i], 24, "bravo/%04d", i * 3); sl[i] = 60 + rndn(r, 61);   /* keeps the entry area safely above UINT32_MAX (a 64-bit restart array is then mandatory) */ for (size_t j = 0; j < sl[i]; j++) small[i][j] = (uint8_t)rnd64(r); }
	int fd = open(path, O_RDWR | O_CREAT | O_TRUNC, 0644);
	if (fd < 0) { inconclusive("cannot create %s", path); return; }
	uint8_t hdr[64]; size_t off = 0;          /* offsets inside the (uncompressed) block */
	uint64_t restarts[NE]; size_t nrs = 0;
	/* block bytes are written at file offset base + off where base = prefix + len_len + 4; len_len known after sizes: compute sizes first */
	uint64_t ent_off[NE]; uint64_t cur = 0; int is_restart[NE]; uint32_t shared[NE];
	for (int i = 0; i < NE; i++) {
		is_restart[i] = (i == 0) || (i == 1) || rndn(r, 2);
		shared[i] = is_restart[i] ? 0 : (uint32_t)lcp((uint8_t *)keys[i - 1], strlen(keys[i - 1]), (uint8_t *)keys[i], strlen(keys[i]));
		if (!is_restart[i] && rndn(r, 2)) shared[i] = rndn(r, shared[i] + 1);
	}
	for (int pass = 0; pass < 2; pass++) {
	cur = 0; nrs = 0;
	for (int i = 0; i < NE; i++) {
		ent_off[i] = cur;
		if (is_restart[i]) restarts[nrs++] = cur;
		uint64_t lv = i == 0 ? V : sl[i];
		uint8_t t[16]; size_t h = rd_varint_put(t, shared[i]); h += rd_varint_put(t + h, strlen(keys[i]) - shared[i]); h += rd_varint_put(t + h, lv);
		cur += h + (strlen(keys[i]) - shared[i]) + lv;
	}
	if (pass == 0 && straddle) { uint64_t rest = cur - V, delta = (c % 6 == 2) ? 0 : rndn(r, (uint32_t)(4 * nrs + 4));   /* delta 0: the entry area is exactly UINT32_MAX bytes */
	if (delta == 0) STAT("c11.big.entry_area_exactly_UINT32_MAX"); V = (uint64_t)UINT32_MAX - delta - rest; } else break;
	}
	uint64_t entries_end = cur;                         /* > UINT32_MAX, or (straddle) within the last 4*nrs+4 bytes below it */
	const unsigned rw = straddle ? 4 : 8;
	uint64_t raw_len = entries_end + rw * nrs + 4;      /* 64-bit restart array unless the entry area itself fits 32 bits */
	if (straddle && !(entries_end <= UINT32_MAX && raw_len > UINT32_MAX)) { inconclusive("straddle construction failed"); close(fd); unlink(path); return; }
	size_t len_len = rd_varint_put(hdr, raw_len);
	uint64_t base = prefix + len_len + 4;
	uint8_t pfx[16]; for (size_t i = 0; i < prefix; i++) pfx[i] = 0x3c ^ (uint8_t)i;
	if (prefix) pwrite(fd, pfx, prefix, 0);
	pwrite(fd, hdr, len_len, prefix);
	for (int i = 0; i < NE; i++) {
		uint8_t e[256]; size_t n;
		uint64_t lv = i == 0 ? V : sl[i];
		n = rd_varint_put(e, shared[i]); n += rd_varint_put(e + n, strlen(keys[i]) - shared[i]); n += rd_varint_put(e + n, lv);
		memcpy(e + n, keys[i] + shared[i], strlen(keys[i]) - shared[i]); n += strlen(keys[i]) - shared[i];
		if (i) { memcpy(e + n, small[i], sl[i]); n += sl[i]; }   /* entry 0's value is a hole of V zero bytes */
		pwrite(fd, e, n, base + ent_off[i]);
	}
	uint8_t *ra = xmalloc(8 * nrs + 4);
	for (size_t j = 0; j < nrs; j++) { if (rw == 8) rd_put64(ra + 8 * j, restarts[j]); else rd_put32(ra + 4 * j, (uint32_t)restarts[j]); }
	rd_put32(ra + rw * nrs, (uint32_t)nrs);
	pwrite(fd, ra, rw * nrs + 4, base + entries_end);
	free(ra);
	uint64_t data_end = base + raw_len;
	/* second, ordinary block */
	uint8_t b2[256]; size_t b2n = 0;
	b2n += refenc_entry(b2 + b2n, 0, (const uint8_t *)"charlie", 7, (const uint8_t *)"second-block", 12);
	b2n += refenc_entry(b2 + b2n, 2, (const uint8_t *)"chz", 3, (const uint8_t *)"", 0);
	rd_put32(b2 + b2n, 0); b2n += 4; rd_put32(b2 + b2n, 1); b2n += 4;
	uint8_t fr[16]; size_t fl = rd_varint_put(fr, b2n); rd_put32(fr + fl, rd_crc32c(b2, b2n)); fl += 4;
	pwrite(fd, fr, fl, data_end); pwrite(fd, b2, b2n, data_end + fl);
	uint64_t ioff = data_end + fl + b2n;
	/* index */
	uint8_t ib[256]; size_t ibn = 0; uint8_t v1[10], v2[10];
	size_t v1n = rd_varint_put(v1, prefix), v2n = rd_varint_put(v2, data_end);
	ibn += refenc_entry(ib + ibn, 0, (const uint8_t *)"bravo/0024x", c % 3 ? 11 : 10, v1, v1n);   /* separator: last key itself or an extension below "charlie" */
	ibn += refenc_entry(ib + ibn, 0, (const uint8_t *)"chz", 3, v2, v2n);
	rd_put32(ib + ibn, 0); ibn += 4; rd_put32(ib + ibn, 1); ibn += 4;
	fl = rd_varint_put(fr, ibn); rd_put32(fr + fl, rd_crc32c(ib, ibn)); fl += 4;
	pwrite(fd, fr, fl, ioff); pwrite(fd, ib, ibn, ioff + fl);
	uint64_t tf[9] = {ioff, 8192, 0, NE + 2, 2, (data_end - prefix) + (ioff - data_end), fl + ibn, 0, 0};
	uint8_t t[512]; refenc_trailer(t, 2, tf);
	pwrite(fd, t, 512, ioff + fl + ibn);
	/* the block's CRC over 4 GiB of (mostly sparse) bytes: map the file and use the decoder's CRC in thorough, mtbl_crc32c (checked by C17) otherwise */
	{
		size_t flen = ioff + fl + ibn + 512;
		uint8_t *map = mmap(NULL, flen, PROT_READ, MAP_PRIVATE, fd, 0);
		if (map == MAP_FAILED) { inconclusive("mmap of %zu bytes failed", flen); close(fd); unlink(path); return; }
		uint32_t crc = mtbl_crc32c(map + base, raw_len);
		munmap(map, flen);
		uint8_t cb[4]; rd_put32(cb, crc); pwrite(fd, cb, 4, prefix + len_len);
	}
	close(fd);
	/* model: entry 0's value compared lazily (length + sampled bytes) -> give the model a short stand-in and check entry 0 by hand */
	struct mtbl_reader_options *ro = mtbl_reader_options_init();
	mtbl_reader_options_set_verify_checksums(ro, a->thorough && c == 0);
	struct mtbl_reader *rd = mtbl_reader_init(path, ro);
	mtbl_reader_options_destroy(&ro);
	if (!rd) viol("C11/reader-rejects-well-formed-file", "reader NULL for the >4 GiB block file");
	else {
		const struct mtbl_source *src = mtbl_reader_source(rd);
		struct mtbl_iter *it = mtbl_source_iter(src);
		const uint8_t *k, *v; size_t lk, lv; int i = 0;
		while (mtbl_iter_next(it, &k, &lk, &v, &lv) == mtbl_res_success) {
			const char *wk = i < NE ? keys[i] : i == NE ? "charlie" : "chz";
			uint64_t wl = i == 0 ? V : i < NE ? sl[i] : i == NE ? 12 : 0;
			if (i > NE + 1 || lk != strlen(wk) || memcmp(k, wk, lk) != 0 || lv != wl) { viol("C11/large-block-iteration-wrong", "entry %d: key %s value len %zu, expected key %s len %" PRIu64, i, hexs(k, lk), lv, wk, wl); break; }
			if (i == 0) { for (uint64_t p = 0; p < V; p += V / 97) if (v[p]) { viol("C11/large-block-iteration-wrong", "huge value byte %" PRIu64 " nonzero", p); break; } }
			else if (i < NE && memcmp(v, small[i], sl[i]) != 0) { viol("C11/large-block-iteration-wrong", "entry %d value differs", i); break; }
			i++;
		}
		if (i != NE + 2) viol("C11/large-block-iteration-wrong", "iteration returned %d entries, expected %d", i, NE + 2);
		mtbl_iter_destroy(&it);
		/* lookups and seeks that start their scan at restart points above 4 GiB */
		for (int q = 0; q < NE; q++) {
			struct mtbl_iter *g = mtbl_source_get(src, (const uint8_t *)keys[q], strlen(keys[q]));
			mtbl_res res = mtbl_iter_next(g, &k, &lk, &v, &lv);
			if (res != mtbl_res_success || lk != strlen(keys[q]) || memcmp(k, keys[q], lk) != 0 || lv != (q == 0 ? V : sl[q]) || (q && memcmp(v, small[q], sl[q]) != 0))
				viol("C11/large-block-lookup-wrong", "get(%s) in the >4 GiB block failed or returned the wrong entry", keys[q]);
			mtbl_iter_destroy(&g);
			/* absent key just after keys[q] -> next entry */
			char absent[32]; snprintf(absent, sizeof absent, "%s!", keys[q]);
			struct mtbl_iter *s = mtbl_source_iter(src);
			if (mtbl_iter_seek(s, (const uint8_t *)absent, strlen(absent)) != mtbl_res_success) viol("C11/large-block-seek-wrong", "seek failed");
			res = mtbl_iter_next(s, &k, &lk, &v, &lv);
			const char *wk = q + 1 < NE ? keys[q + 1] : "charlie";
			if (res != mtbl_res_success || lk != strlen(wk) || memcmp(k, wk, lk) != 0) viol("C11/large-block-seek-wrong", "seek(%s) then next: expected %s, got %s", absent, wk, res == mtbl_res_success ? hexs(k, lk) : "failure");
			/* backwards within the block, to a restart above 4 GiB */
			if (mtbl_iter_seek(s, (const uint8_t *)keys[q], strlen(keys[q])) != mtbl_res_success) viol("C11/large-block-seek-wrong", "seek failed");
			res = mtbl_iter_next(s, &k, &lk, &v, &lv);
			if (res != mtbl_res_success || lk != strlen(keys[q]) || memcmp(k, keys[q], lk) != 0) viol("C11/large-block-seek-wrong", "seek(%s) then next returned %s", keys[q], res == mtbl_res_success ? hexs(k, lk) : "failure");
			mtbl_iter_destroy(&s);
			STAT("c11.big.lookups_and_seeks");
		}
		mtbl_reader_destroy(&rd);
	}
	if (straddle) STAT("c11.big.straddling_blocks_32bit_restarts_over_4GiB"); else stat_add("c11.big.restart_points_above_4GiB", nrs - 1);
	STAT("c11.big.files");
	if (want_sample()) sample("big: v2 file, block 0 = %d entries, first value %" PRIu64 " bytes (sparse), %zu restart points of which %zu above 4 GiB (64-bit restart array), foreign prefix %zu", NE, V, nrs, nrs - 1, prefix);
	case_hash(V ^ fnv64(is_restart, sizeof is_restart, 0));
	unlink(path);
	model_free(&m);
}

/* ---- decoder vs sample files vs real reader */
/* ------------------------------------------------------------------ compressed data blocks larger than the library's own writer can produce (thorough, -O2 build):
 * zstd with a decompressed size above INT_MAX, zlib inflating to more than 2^32 bytes (64-bit restart array).  Compressed directly with libzstd / zlib. */
#include <zlib.h>
#include <zstd.h>
static void case_bigz(const args_t *a, long c, rng_t *r)
{
	(void)r;
	g_prop = "C11";
	const int kind = (int)(c % 2);                         /* 0 zstd, 1 zlib */
	const int NE = kind == 0 ? 2 : 6;
	const uint64_t VL[6] = {kind == 0 ? (5ULL << 28) : (1100ULL << 20), kind == 0 ? (1ULL << 30) : (1100ULL << 20) + 1, (1100ULL << 20) + 2, (1100ULL << 20) + 3, (1100ULL << 20) + 4, (1100ULL << 20) + 5};
	uint64_t ent_off[6], cur = 0;
	for (int i = 0; i < NE; i++) { ent_off[i] = cur; uint8_t t[16]; cur += rd_varint_put(t, 0) + rd_varint_put(t, 2) + rd_varint_put(t, VL[i]) + 2 + VL[i]; }
	const uint64_t entries_end = cur; const int rw = entries_end > UINT32_MAX ? 8 : 4;
	const uint64_t raw_len = entries_end + (uint64_t)rw * NE + 4;
	uint8_t *raw = calloc(1, raw_len);
	if (!raw) { inconclusive("cannot allocate %" PRIu64 " bytes", raw_len); return; }
	for (int i = 0; i < NE; i++) {
		uint8_t *p = raw + ent_off[i]; p += rd_varint_put(p, 0); p += rd_varint_put(p, 2); p += rd_varint_put(p, VL[i]);
		p[0] = 'k'; p[1] = (uint8_t)('a' + i); p += 2;
		p[0] = (uint8_t)(0x11 * (i + 1)); p[VL[i] - 1] = (uint8_t)(0xA0 + i);     /* markers at both ends of the value */
		if (rw == 8) rd_put64(raw + entries_end + 8 * i, ent_off[i]); else rd_put32(raw + entries_end + 4 * i, (uint32_t)ent_off[i]);
	}
	rd_put32(raw + entries_end + (uint64_t)rw * NE, (uint32_t)NE);
	/* zlib: 40 MiB of incompressible filler inside the first value, so that the compressed size c is about 40 MiB and a reader that sizes its output buffer
	   as a multiple of c and doubles it (4c, 8c, ...) owns a buffer between 2^32 bytes and the block size that has to grow once more */
	if (kind == 1) { uint64_t x = 0x9E3779B97F4A7C15ULL; uint8_t *fp = raw + ent_off[0] + 16; for (size_t i = 0; i < (40u << 20); i += 8) { x ^= x << 13; x ^= x >> 7; x ^= x << 17; memcpy(fp + i, &x, 8); } }
	/* compress */
	uint8_t *cz = NULL; size_t cn = 0;
	if (kind == 0) {
		size_t cap = ZSTD_compressBound(raw_len); cz = malloc(cap);
		if (!cz) { inconclusive("cannot allocate"); free(raw); return; }
		cn = ZSTD_compress(cz, cap, raw, raw_len, 1);
		if (ZSTD_isError(cn)) { inconclusive("zstd refuses %" PRIu64 " bytes: %s", raw_len, ZSTD_getErrorName(cn)); free(cz); free(raw); return; }
	} else {
		size_t cap = 256u << 20; cz = malloc(cap);
		z_stream zs; memset(&zs, 0, sizeof zs);
		if (!cz || deflateInit(&zs, 1) != Z_OK) { inconclusive("deflateInit"); free(cz); free(raw); return; }
		uint64_t fed = 0; zs.next_out = cz; zs.avail_out = (uInt)cap;
		int zr = Z_OK;
		while (zr != Z_STREAM_END) {
			if (zs.avail_in == 0 && fed < raw_len) { uint64_t chunk = raw_len - fed; if (chunk > (1u << 30)) chunk = 1u << 30; zs.next_in = raw + fed; zs.avail_in = (uInt)chunk; fed += chunk; }
			zr = deflate(&zs, fed == raw_len ? Z_FINISH : Z_NO_FLUSH);
			if (zr == Z_STREAM_ERROR || zs.avail_out == 0) { inconclusive("deflate: output buffer of 256 MiB too small or error"); deflateEnd(&zs); free(cz); free(raw); return; }
		}
		cn = cap - zs.avail_out; deflateEnd(&zs);
	}
	/* file: data block, index block (uncompressed), trailer */
	char path[4096]; snprintf(path, sizeof path, "%s/c11-bigz-%ld.mtbl", a->workdir, c);
	int fd = open(path, O_RDWR | O_CREAT | O_TRUNC, 0644);
	uint8_t fr[16]; size_t fl = rd_varint_put(fr, cn); rd_put32(fr + fl, rd_crc32c(cz, cn)); fl += 4;
	if (fd < 0 || pwrite(fd, fr, fl, 0) != (ssize_t)fl || pwrite(fd, cz, cn, fl) != (ssize_t)cn) { inconclusive("cannot write %s", path); if (fd >= 0) close(fd); free(cz); free(raw); return; }
	uint64_t ioff = fl + cn;
	uint8_t ib[64]; size_t ibn = 0; uint8_t v0[10]; size_t v0n = rd_varint_put(v0, 0);
	uint8_t lastk[2] = {'k', (uint8_t)('a' + NE - 1)};
	ibn += refenc_entry(ib + ibn, 0, lastk, 2, v0, v0n);
	rd_put32(ib + ibn, 0); ibn += 4; rd_put32(ib + ibn, 1); ibn += 4;
	size_t il = rd_varint_put(fr, ibn); rd_put32(fr + il, rd_crc32c(ib, ibn)); il += 4;
	pwrite(fd, fr, il, ioff); pwrite(fd, ib, ibn, ioff + il);
	uint64_t bv = 0; for (int i = 0; i < NE; i++) bv += VL[i];
	uint64_t tf[9] = {ioff, 8192, kind == 0 ? MTBL_COMPRESSION_ZSTD : MTBL_COMPRESSION_ZLIB, (uint64_t)NE, 1, ioff, il + ibn, 2 * (uint64_t)NE, bv};
	uint8_t t[512]; refenc_trailer(t, 2, tf);
	pwrite(fd, t, 512, ioff + il + ibn);
	close(fd);
	free(cz); free(raw);
	/* the real reader, in a child (an assertion in get_block is an observation) */
	fflush(stdout);
	pid_t pid = fork();
	if (pid == 0) {
		int nfd = open("/dev/null", O_WRONLY); dup2(nfd, 2);
		struct mtbl_reader_options *ro = mtbl_reader_options_init();
		mtbl_reader_options_set_verify_checksums(ro, true);
		struct mtbl_reader *rd = mtbl_reader_init(path, ro);
		if (!rd) _exit(3);
		struct mtbl_iter *it = mtbl_source_iter(mtbl_reader_source(rd));
		const uint8_t *k, *v; size_t lk, lv; int n = 0;
		while (mtbl_iter_next(it, &k, &lk, &v, &lv) == mtbl_res_success) {
			if (n >= NE || lk != 2 || k[0] != 'k' || k[1] != 'a' + n || lv != VL[n] || v[0] != 0x11 * (n + 1) || v[lv - 1] != 0xA0 + n || v[lv / 2] != 0) _exit(4);
			n++;
		}
		if (n != NE) _exit(5);
		mtbl_iter_destroy(&it);
		uint8_t q[2] = {'k', (uint8_t)('a' + NE - 1)};
		it = mtbl_source_get(mtbl_reader_source(rd), q, 2);
		if (mtbl_iter_next(it, &k, &lk, &v, &lv) != mtbl_res_success || lv != VL[NE - 1] || v[lv - 1] != 0xA0 + NE - 1) _exit(6);
		_exit(0);
	}
	int st; waitpid(pid, &st, 0);
	if (WIFEXITED(st) && WEXITSTATUS(st) == 3) viol("C11/reader-rejects-well-formed-file", "reader NULL for a %s block of %" PRIu64 " uncompressed bytes", kind ? "zlib" : "zstd", raw_len);
	else if (WIFEXITED(st) && WEXITSTATUS(st)) viol("C11/large-block-iteration-wrong", "%s block of %" PRIu64 " uncompressed bytes (%d entries): wrong content (step %d)", kind ? "zlib" : "zstd", raw_len, NE, WEXITSTATUS(st));
	else if (!WIFEXITED(st)) viol("C11/abort-on-large-compressed-block", "reading a well-formed %s block of %" PRIu64 " uncompressed bytes (%zu compressed) stopped the process (status 0x%x)", kind ? "zlib" : "zstd", raw_len, cn, st);
	statf(1, "c11.bigz.%s", kind ? "zlib_block_over_4GiB" : "zstd_block_over_2GiB");
	if (kind == 1) { for (uint64_t sz = 4 * (uint64_t)cn; sz < raw_len; sz *= 2) if (sz > (1ULL << 32)) { STAT("c11.bigz.zlib_4c_doubling_has_a_step_between_2^32_and_block_size"); break; } }
	STAT("c11.bigz.files");
	if (want_sample()) sample("bigz: one %s data block, %d entries, %" PRIu64 " uncompressed bytes (%zu compressed), %d-bit restart array", kind ? "zlib" : "zstd", NE, raw_len, cn, rw * 8);
	case_hash(raw_len + kind);
	unlink(path);
}

static void case_selfcheck(const args_t *a, long c, rng_t *r)
{
	(void)c; (void)r;
	DIR *d = opendir(a->aux); struct dirent *e;
	if (!d) { inconclusive("cannot open sample dir %s", a->aux); return; }
	int nfiles = 0;
	while ((e = readdir(d))) {
		size_t l = strlen(e->d_name);
		if (l < 6 || strcmp(e->d_name + l - 5, ".data") != 0) continue;
		char p[4096]; snprintf(p, sizeof p, "%s/%s", a->aux, e->d_name);
		size_t len; uint8_t *data = read_file(p, &len);
		rd_file_t f;
		struct mtbl_reader *rd = mtbl_reader_init(p, NULL);
		if (!data) continue;
		int parsed = rd_parse(data, len, -1, &f) == 0;
		if (!rd) { statf(1, "selfcheck.reader_rejects.%s", e->d_name); if (parsed) STAT("selfcheck.decoder_accepts_what_reader_rejects"); rd_free(&f); free(data); continue; }
		if (!parsed) {
			/* deliberately damaged samples (bad crc / offset) are fine to reject; only note it */
			statf(1, "selfcheck.decoder_rejects.%s", e->d_name);
		} else {
			struct mtbl_iter *it = mtbl_source_iter(mtbl_reader_source(rd));
			const uint8_t *k, *v; size_t lk, lv; size_t bi = 0, ei = 0, n = 0; int bad = 0;
			while (mtbl_iter_next(it, &k, &lk, &v, &lv) == mtbl_res_success) {
				while (bi < f.n_blocks && ei >= f.blocks[bi].n_ents) { bi++; ei = 0; }
				if (bi >= f.n_blocks) { bad = 1; break; }
				const rd_ent_t *x = &f.blocks[bi].ents[ei++];
				if (key_cmp(k, lk, x->k.p, x->k.n) != 0 || lv != x->vlen || (lv && memcmp(v, x->v, lv) != 0)) { bad = 1; break; }
				n++;
			}
			mtbl_iter_destroy(&it);
			size_t total = 0; for (size_t b = 0; b < f.n_blocks; b++) total += f.blocks[b].n_ents;
			if (bad || n != total) inconclusive("independent decoder and real reader disagree on sample file %s (%zu vs %zu entries)", e->d_name, total, n);
			else { STAT("selfcheck.sample_files_agree"); statf(1, "selfcheck.agree.v%d", f.version); stat_add("selfcheck.entries", n); }
			nfiles++;
		}
		rd_free(&f); free(data);
		mtbl_reader_destroy(&rd);
	}
	closedir(d);
	if (want_sample()) sample("selfcheck: %d sample files under %s decoded by harness/refdec.c and compared with the real reader", nfiles, a->aux);
}

int main(int argc, char **argv)
{
	args_t a;
	parse_args(argc, argv, &a);
	case_fn f = NULL;
	if (!strcmp(a.sub, "files")) f = case_files;
	else if (!strcmp(a.sub, "big")) f = case_big;
	else if (!strcmp(a.sub, "selfcheck")) f = case_selfcheck;
	else if (!strcmp(a.sub, "bigz")) f = case_bigz;
	else return 98;
	return run_cases(&a, f);
}
