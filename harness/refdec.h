/* Independent decoder of the MTBL v1/v2 file format.  Shares no code with mtbl/: own varint,
 * own fixed-width decoding, own CRC-32C, direct calls into zlib/snappy/lz4/zstd. */
#ifndef VERIF_REFDEC_H
#define VERIF_REFDEC_H

#include "common.h"

typedef struct {
	uint64_t off;            /* offset of the entry header inside the uncompressed block */
	uint32_t shared, nonshared, vlen;
	unsigned hdr_len;        /* bytes of the three varints */
	bs_t k;                  /* full key (owned) */
	const uint8_t *v;        /* points into block raw bytes */
	int is_restart;          /* a restart array element points at this entry */
} rd_ent_t;

typedef struct {
	uint64_t file_off;       /* offset of the length prefix */
	unsigned len_len;
	uint64_t stored_len;
	uint32_t crc_stored, crc_calc;
	uint64_t frame_len;      /* len_len + 4 + stored_len */
	uint8_t *raw; size_t raw_len; int raw_owned;
	uint64_t *restarts; uint32_t n_restarts; int restart64;
	uint64_t entries_end;
	rd_ent_t *ents; size_t n_ents;
	int restarts_valid;      /* every restart offset is the offset of an entry with shared==0, ascending, first==0 */
} rd_block_t;

typedef struct {
	int version;             /* 1 or 2 */
	uint64_t t[9];           /* trailer fields in file order */
	int trailer_padding_zero;
	uint32_t magic;
	rd_block_t *blocks; size_t n_blocks;
	rd_block_t index;
	uint64_t *index_offsets; /* decoded values of the index entries */
	char err[300];
} rd_file_t;

enum { T_INDEX_OFF, T_BLOCK_SIZE, T_COMP, T_ENTRIES, T_BLOCKS, T_BYTES_DATA, T_BYTES_INDEX, T_BYTES_KEYS, T_BYTES_VALUES };

uint32_t rd_crc32c(const uint8_t *p, size_t n);
unsigned rd_varint(const uint8_t *p, const uint8_t *end, uint64_t *v);   /* 0 on truncation/overlong */
unsigned rd_varint_put(uint8_t *p, uint64_t v);
uint32_t rd_le32(const uint8_t *p);
uint64_t rd_le64(const uint8_t *p);
void rd_put32(uint8_t *p, uint32_t v);
void rd_put64(uint8_t *p, uint64_t v);

/* decompress with the named algorithm by calling the compression library directly; 0 = ok */
int rd_decompress(int comp, const uint8_t *in, size_t n, uint8_t **out, size_t *outn);

/* parse the block whose length prefix starts at off and must end at or before limit; 0 = ok */
int rd_parse_block(const uint8_t *file, uint64_t off, uint64_t limit, int version, int comp, rd_block_t *b, char *err);
void rd_block_free(rd_block_t *b);

/* Parse a whole file.  start >= 0: data blocks are walked contiguously from `start` up to the
 * index block offset (the index is then cross-checked by the caller).  start < 0: data blocks
 * are located through the index values (files whose leading foreign bytes are unknown). */
int rd_parse(const uint8_t *data, size_t len, int64_t start, rd_file_t *f);
void rd_free(rd_file_t *f);

/* locate the index block without trusting the trailer (C10 must be able to contradict the trailer's index offset) */
extern int64_t rd_index_off_override;
int64_t rd_find_index_by_walking(const uint8_t *data, size_t len, uint64_t start, int version);

#endif
