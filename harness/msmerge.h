/* Multiset merge function: a value is a sorted list of 8-byte big-endian ids; merge = sorted
 * multiset union.  Associative and commutative (no fold order is demanded) but multiplicity-
 * sensitive: the final value for a key lists exactly which source values were folded, how often. */
#ifndef VERIF_MSMERGE_H
#define VERIF_MSMERGE_H
#include <stdint.h>
#include <stdlib.h>
#include <string.h>

static inline void ms_put_id(uint8_t *p, uint64_t id) { for (int i = 0; i < 8; i++) p[i] = (uint8_t)(id >> (56 - 8 * i)); }
static inline uint64_t ms_get_id(const uint8_t *p) { uint64_t v = 0; for (int i = 0; i < 8; i++) v = (v << 8) | p[i]; return v; }

static inline void ms_union(const uint8_t *a, size_t la, const uint8_t *b, size_t lb, uint8_t **out, size_t *lout)
{
	uint8_t *o = malloc(la + lb ? la + lb : 1);
	size_t i = 0, j = 0, k = 0;
	while (i + 8 <= la && j + 8 <= lb) {
		if (memcmp(a + i, b + j, 8) <= 0) { memcpy(o + k, a + i, 8); i += 8; }
		else { memcpy(o + k, b + j, 8); j += 8; }
		k += 8;
	}
	while (i < la) o[k++] = a[i++];   /* copies trailing fragments verbatim, so malformed operands stay visible */
	while (j < lb) o[k++] = b[j++];
	*out = o; *lout = k;
}
#endif
