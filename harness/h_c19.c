/* C19: opening arbitrary bytes as a table never reads outside the file.
 * The library's mmap/munmap are redirected (ld --wrap) so that the file's bytes sit between two 8 GiB
 * PROT_NONE regions: end-aligned (the byte after the file is unmapped) or start-aligned (the byte
 * before it is unmapped).  Every case runs in a forked child; SIGSEGV/SIGBUS (or a sanitizer report)
 * is a violation; NULL, a reader, or an assertion abort are allowed.
 *   mut     all single-field mutations of valid seed files (trailer fields, magic, index length prefix), truncations, head cuts
 *   tiny    every file length 512..544 x magic x index offset value set
 *   random  seeded random files with a valid magic pasted in
 */
#include "gen.h"
#include "refdec.h"
#include "refenc.h"
#include <sys/mman.h>

void *__real_mmap(void *, size_t, int, int, int, off_t);
int __real_munmap(void *, size_t);

#define GUARD (8ULL << 30)
static int guard_mode;          /* 0 off, 1 end-aligned, 2 start-aligned */
static struct { void *user; void *base; size_t total; } maps[8];

void *__wrap_mmap(void *addr, size_t len, int prot, int flags, int fd, off_t off)
{
	if (!guard_mode || fd < 0 || prot != PROT_READ || off != 0 || len == 0) return __real_mmap(addr, len, prot, flags, fd, off);
	size_t pg = 4096, body = (len + pg - 1) / pg * pg, total = GUARD + body + GUARD;
	uint8_t *base = __real_mmap(NULL, total, PROT_NONE, MAP_PRIVATE | MAP_ANONYMOUS | MAP_NORESERVE, -1, 0);
	if (base == MAP_FAILED) { fprintf(stderr, "harness: cannot reserve guard region\n"); _exit(99); }
	uint8_t *mid = base + GUARD;
	if (mprotect(mid, body, PROT_READ | PROT_WRITE) != 0) _exit(99);
	memset(mid, 0xA5, body);
	uint8_t *user = guard_mode == 1 ? mid + (body - len) : mid;
	size_t o = 0;
	while (o < len) { ssize_t n = pread(fd, user + o, len - o, o); if (n <= 0) break; o += n; }
	mprotect(mid, body, PROT_READ);
	for (int i = 0; i < 8; i++) if (!maps[i].user) { maps[i].user = user; maps[i].base = base; maps[i].total = total; break; }
	return user;
}
int __wrap_munmap(void *addr, size_t len)
{
	for (int i = 0; i < 8; i++) if (maps[i].user == addr && addr) { int r = __real_munmap(maps[i].base, maps[i].total); maps[i].user = NULL; return r; }
	return __real_munmap(addr, len);
}

/* 0 NULL, 1 reader, 2 abort, 3 VIOLATION(signal), 4 sanitizer report, 5 other */
static int open_in_child(const char *path, int verify, int gmode, int use_fd, int *sig)
{
	fflush(stdout);
	pid_t pid = fork();
	if (pid == 0) {
		int nfd = open("/dev/null", O_WRONLY); dup2(nfd, 2);
		alarm(60);
		guard_mode = gmode;
		struct mtbl_reader_options *ro = mtbl_reader_options_init();
		mtbl_reader_options_set_verify_checksums(ro, verify);
		struct mtbl_reader *rd;
		if (use_fd) { int fd = open(path, O_RDONLY); rd = mtbl_reader_init_fd(fd, ro); close(fd); }
		else rd = mtbl_reader_init(path, ro);
		if (!rd) _exit(0);
		mtbl_reader_destroy(&rd);         /* the statement is about opening: no iteration */
		_exit(1);
	}
	int st; waitpid(pid, &st, 0);
	*sig = 0;
	if (WIFEXITED(st)) { int e = WEXITSTATUS(st); return e == 0 ? 0 : e == 1 ? 1 : e == 86 ? 4 : 5; }
	*sig = WTERMSIG(st);
	if (*sig == SIGABRT) return 2;
	return 3;
}

static const char *OUTC[] = {"NULL", "reader", "assert-abort", "SIGNAL", "sanitizer-report", "other"};
static char g_path[4096];

static void try_bytes(const uint8_t *b, size_t n, const char *cls, const char *detail)
{
	write_file(g_path, b, n);
	for (int verify = 0; verify < 2; verify++)
		for (int gm = 1; gm <= 2; gm++) {
			int use_fd = (verify + gm) & 1, sig;
			int o = open_in_child(g_path, verify, gm, use_fd, &sig);
			statf(1, "outcome.%s.%s", cls, OUTC[o]);
			statf(1, "opens.verify%d.%s", verify, gm == 1 ? "end-aligned" : "start-aligned");
			STAT("opens");
			if (o == 3) viol(sig == SIGALRM ? "C19/open-hangs" : "C19/open-reads-outside-the-file", "%s (%s): %s of a %zu-byte file with verify_checksums=%d, %s guard, died with signal %d", cls, detail, use_fd ? "mtbl_reader_init_fd" : "mtbl_reader_init", n, verify, gm == 1 ? "end-aligned" : "start-aligned", sig);
			else if (o == 4) viol("C19/open-sanitizer-report", "%s (%s): sanitizer report while opening a %zu-byte file (verify=%d)", cls, detail, n, verify);
			else if (o == 5) inconclusive("child exited unexpectedly for %s (%s)", cls, detail);
		}
	STAT("files_tried");
}

static const uint64_t *value_set(uint64_t truth, uint64_t size, size_t *n)
{
	static uint64_t v[96]; size_t k = 0;
	uint64_t base[] = {0, 1, 2, 12, 13, 16, 17, 511, 512, 513, 524, 525, 528, truth - 1, truth + 1, truth + 2, truth > 8 ? truth - 8 : 3, size - 525, size - 524, size - 526, size - 528, size - 529, size - 512, size - 513, size - 511, size, size + 1,
			   1ULL << 31, (1ULL << 31) - 1, 1ULL << 32, (1ULL << 32) - 1, (1ULL << 32) + 5, (1ULL << 32) + size, 1ULL << 62, 1ULL << 63, (1ULL << 63) - 1, UINT64_MAX, UINT64_MAX - 1, UINT64_MAX - 3, UINT64_MAX - 4, UINT64_MAX - 5, UINT64_MAX - 8,
			   UINT64_MAX - 12, UINT64_MAX - 13, UINT64_MAX - 14, UINT64_MAX - 15, UINT64_MAX - 16, UINT64_MAX - 17, UINT64_MAX - 20, UINT64_MAX - 511, UINT64_MAX - 512, UINT64_MAX - 524, UINT64_MAX - 525, UINT64_MAX - 526, UINT64_MAX - 528, UINT64_MAX - size, UINT64_MAX - size + 1, UINT64_MAX - size - 1};
	for (size_t i = 0; i < sizeof base / sizeof base[0]; i++) v[k++] = base[i];
	*n = k;
	return v;
}

/* a valid seed image */
static uint8_t *make_seed(const args_t *a, rng_t *r, long c, size_t *len, int *version, size_t *prefix, char *desc, size_t dsz)
{
	model_t m; shape_t sh;
	gen_shape(r, &sh, 1024, 0);
	if (sh.pfx_len > 64) sh.pfx_len = 64;
	size_t n = (c % 6 == 0) ? 0 : (c % 6 == 1) ? 3 : 20 + rndn(r, 400);
	gen_model(r, &sh, n, 0, &m);
	shape_free(&sh);
	uint8_t *img = NULL;
	if (c % 2 == 0) {
		wcfg_t cfg; gen_wcfg(r, &cfg); cfg.pool = -1; cfg.block_size = 1024;
		if (cfg.prefix_len > 512) cfg.prefix_len = 13;
		char p[4200]; snprintf(p, sizeof p, "%s.seed", g_path);
		write_model(p, &cfg, &m, NULL);
		img = read_file(p, len); unlink(p);
		*version = 2; *prefix = cfg.prefix_len;
		snprintf(desc, dsz, "writer-made v2, %zu entries, %s", m.n, wcfg_str(&cfg));
	} else {
		enc_opts_t o; enc_stats_t st; gen_enc_opts(r, &o); o.version = (c % 4 == 1) ? 1 : 2; if (o.prefix_len > 512) o.prefix_len = 13;
		if (refenc_build(&m, &o, r, &img, len, &st) != 0) img = NULL; else enc_stats_free(&st);
		*version = o.version; *prefix = o.prefix_len;
		snprintf(desc, dsz, "encoder-made, %zu entries, %s", m.n, enc_opts_str(&o));
	}
	model_free(&m);
	(void)a;
	return img;
}

static void case_mut(const args_t *a, long c, rng_t *r)
{
	size_t len, prefix; int version; char desc[400], det[400];
	snprintf(g_path, sizeof g_path, "%s/c19-%ld.bin", a->workdir, c);
	uint8_t *seed = make_seed(a, r, c, &len, &version, &prefix, desc, sizeof desc);
	if (!seed) { inconclusive("no seed"); return; }
	if (want_sample()) sample("mut: seed of %zu bytes (%s): trailer fields / magic / index length prefix set to boundary values, 1-byte corruptions, truncations, head cuts; each opened 4x (verify on/off x end/start-aligned guard pages)", len, desc);
	try_bytes(seed, len, "intact-seed", desc);
	uint8_t *b = xmalloc(len + 16);
	uint64_t ioff = rd_le64(seed + len - 512);
	size_t nv; const uint64_t *vs;
	/* (1) trailer fields: index offset gets the whole value set, the other eight a reduced one */
	for (int f = 0; f < 9; f++) {
		vs = value_set(rd_le64(seed + len - 512 + 8 * f), len, &nv);
		for (size_t i = 0; i < nv; i++) {
			if (f > 0 && i % 6 != (size_t)f % 6) continue;
			memcpy(b, seed, len); rd_put64(b + len - 512 + 8 * f, vs[i]);
			snprintf(det, sizeof det, "trailer field %d <- %" PRIu64, f, vs[i]);
			try_bytes(b, len, f == 0 ? "trailer-index-offset" : "trailer-other-field", det);
		}
	}
	/* (2) magic */
	{ uint32_t mg[] = {0x77846676u, 0x4D54424Cu, 0, 0xffffffffu, 0x4D54424Du};
	  for (int i = 0; i < 5; i++) { memcpy(b, seed, len); rd_put32(b + len - 4, mg[i]); snprintf(det, sizeof det, "magic <- %08x", mg[i]); try_bytes(b, len, "magic", det); } }
	/* (3) index block length prefix: values (as varint for v2, fixed32 for v1) and 1-byte corruptions of its first 10 bytes */
	vs = value_set(0, len, &nv);
	for (size_t i = 0; i < nv; i++) {
		memcpy(b, seed, len);
		if (version == 2) { uint8_t t[10]; unsigned n = rd_varint_put(t, vs[i]); if (ioff + n <= len - 512) memcpy(b + ioff, t, n); }
		else rd_put32(b + ioff, (uint32_t)vs[i]);
		snprintf(det, sizeof det, "index length prefix <- %" PRIu64, vs[i]);
		try_bytes(b, len, version == 2 ? "index-length-varint" : "index-length-fixed32", det);
	}
	for (int pos = 0; pos < 10 && ioff + pos < len - 512; pos++) {
		static const uint8_t few[] = {0x00, 0x01, 0x7f, 0x80, 0x81, 0xfe, 0xff};
		int nvals = a->thorough ? 256 : (int)sizeof few;
		for (int vi = 0; vi < nvals; vi++) {
			uint8_t nb = a->thorough ? (uint8_t)vi : few[vi];
			if (seed[ioff + pos] == nb) continue;
			memcpy(b, seed, len); b[ioff + pos] = nb;
			snprintf(det, sizeof det, "byte %d of the index block header <- %02x", pos, nb);
			try_bytes(b, len, "index-header-byte", det);
		}
	}
	/* ten continuation bytes as the length prefix (over-long varint) */
	if (ioff + 10 <= len - 512) { memcpy(b, seed, len); memset(b + ioff, 0xff, 10); try_bytes(b, len, "index-length-varint", "ten continuation bytes"); }
	/* (4) truncations (tail removed) in windows around interesting lengths */
	{ size_t pts[] = {0, 512, 525, 528, (size_t)ioff, (size_t)ioff + 512, len};
	  for (size_t p = 0; p < sizeof pts / sizeof pts[0]; p++)
		for (long d = -3; d <= 3; d++) {
			long L = (long)pts[p] + d;
			if (L < 0 || (size_t)L > len) continue;
			snprintf(det, sizeof det, "truncated to %ld of %zu bytes", L, len);
			try_bytes(seed, (size_t)L, "truncation", det);
		} }
	/* (5) head cuts: bytes removed before the trailer, trailer kept valid-looking */
	for (size_t keep = 0; keep <= 40 && keep + 512 <= len; keep++) {
		if (!a->thorough && keep > 20 && keep % 4) continue;
		memcpy(b, seed + (len - 512 - keep), keep + 512);
		snprintf(det, sizeof det, "only the last %zu bytes before the trailer kept", keep);
		try_bytes(b, keep + 512, "head-cut", det);
		/* and with the index offset re-pointed inside / just outside what is left */
		uint64_t offs[] = {0, keep > 13 ? keep - 13 : 0, keep, keep + 1};
		for (int q = 0; q < 4; q++) { rd_put64(b + keep, offs[q]); snprintf(det, sizeof det, "last %zu bytes kept, index offset <- %" PRIu64, keep, offs[q]); try_bytes(b, keep + 512, "head-cut-repointed", det); }
	}
	/* (6) forgeries that keep the redundant fields consistent with each other: a reader that validates one untrusted
	 *     field against another (instead of against the mapping) accepts these */
	{
		uint64_t set[96]; size_t ns; { const uint64_t *t = value_set(0, len, &ns); memcpy(set, t, ns * sizeof set[0]); }
		for (size_t i = 0; i < ns; i++) {
			/* (6a) index length prefix <- P, trailer bytes_index_block (and in half of them bytes_data_blocks) agree with it */
			uint64_t P = set[i];
			unsigned ll = 4;
			memcpy(b, seed, len);
			if (version == 2) { uint8_t t[10]; ll = rd_varint_put(t, P); if (ioff + ll > len - 512) continue; memcpy(b + ioff, t, ll); }
			else rd_put32(b + ioff, (uint32_t)P);
			rd_put64(b + len - 512 + 8 * T_BYTES_INDEX, (version == 2 ? P : (uint32_t)P) + ll + 4);
			if (i % 2) rd_put64(b + len - 512 + 8 * T_BYTES_DATA, ioff);
			snprintf(det, sizeof det, "index length prefix <- %" PRIu64 " and trailer bytes_index_block made to agree", P);
			try_bytes(b, len, "consistent-index-length", det);
		}
		for (size_t i = 0; i < ns; i++) {
			/* (6b) index offset <- O, bytes_index_block <- file size - 512 - O (mod 2^64): the "exact layout" equation holds */
			uint64_t O = set[i];
			memcpy(b, seed, len);
			rd_put64(b + len - 512 + 8 * T_INDEX_OFF, O);
			rd_put64(b + len - 512 + 8 * T_BYTES_INDEX, (uint64_t)len - 512 - O);
			if (i % 2) rd_put64(b + len - 512 + 8 * T_BYTES_DATA, O);
			snprintf(det, sizeof det, "index offset <- %" PRIu64 " and bytes_index_block <- size - 512 - offset", O);
			try_bytes(b, len, "consistent-index-offset", det);
		}
		/* (6c) random pairs / triples of (trailer field | length prefix) x value set */
		int npairs = a->thorough ? 600 : 150;
		for (int q = 0; q < npairs; q++) {
			memcpy(b, seed, len);
			int k = 2 + (int)rndn(r, 2), o = 0;
			for (int j = 0; j < k; j++) {
				int f = (int)rndn(r, 10); uint64_t val = set[rndn(r, (uint32_t)ns)];
				uint64_t cur_ioff = rd_le64(b + len - 512);
				if (f < 9) rd_put64(b + len - 512 + 8 * f, val);
				else if (cur_ioff < len - 512 - 10) { if (version == 2) { uint8_t t[10]; unsigned n = rd_varint_put(t, val); memcpy(b + cur_ioff, t, n); } else rd_put32(b + cur_ioff, (uint32_t)val); }
				if ((size_t)o < sizeof det - 1) o += snprintf(det + o, sizeof det - o, "%s%s <- %" PRIu64, j ? ", " : "", f < 9 ? (const char *[]){"index_offset", "block_size", "compression", "entries", "blocks", "bytes_data", "bytes_index", "bytes_keys", "bytes_values"}[f] : "index length prefix", val);
			}
			try_bytes(b, len, "multi-field", det);
		}
	}
	STAT("mut.seeds");
	statf(1, "mut.seeds.v%d", version);
	case_hash(fnv64(seed, len, 0));
	free(b); free(seed);
	unlink(g_path);
}

static void case_tiny(const args_t *a, long c, rng_t *r)
{
	(void)r;
	snprintf(g_path, sizeof g_path, "%s/c19t-%ld.bin", a->workdir, c);
	size_t L = 512 + (size_t)c;             /* cases 0..32 -> lengths 512..544 */
	uint8_t *b = xmalloc(L);
	char det[200];
	size_t nv; const uint64_t *vs = value_set(L > 525 ? L - 525 : 0, L, &nv);
	for (int mg = 0; mg < 2; mg++)
		for (size_t i = 0; i < nv; i++)
			for (int fill = 0; fill < 3; fill++) {
				memset(b, fill == 0 ? 0 : fill == 1 ? 0xff : 0x80, L);
				memset(b + L - 512, 0, 512);
				rd_put64(b + L - 512, vs[i]);
				rd_put32(b + L - 4, mg ? 0x77846676u : 0x4D54424Cu);
				snprintf(det, sizeof det, "%zu-byte file, %s magic, index offset %" PRIu64 ", body fill %d", L, mg ? "v1" : "v2", vs[i], fill);
				try_bytes(b, L, "tiny-file", det);
			}
	if (want_sample()) sample("tiny: files of %zu bytes with valid v1/v2 magic, index offset from a %zu-value boundary set, body filled with 00/ff/80", L, nv);
	case_hash(L);
	free(b); unlink(g_path);
}

static void case_random(const args_t *a, long c, rng_t *r)
{
	snprintf(g_path, sizeof g_path, "%s/c19r-%ld.bin", a->workdir, c);
	char det[200];
	for (int rep = 0; rep < 16; rep++) {
		size_t L = rndn(r, 4) == 0 ? rndn(r, 600) : 512 + rndn(r, 7680);
		uint8_t *b = xmalloc(L);
		int fillk = rndn(r, 3);
		for (size_t i = 0; i < L; i++) b[i] = fillk == 0 ? (uint8_t)rnd64(r) : fillk == 1 ? 0xff : (uint8_t)(rnd64(r) & 0x83);
		if (L >= 512) {
			if (rndn(r, 8)) rd_put32(b + L - 4, rndn(r, 2) ? 0x77846676u : 0x4D54424Cu);
			if (rndn(r, 4)) rd_put64(b + L - 512, rndn(r, 3) ? rndn(r, (uint32_t)L) : rnd64(r) >> rndn(r, 64));
		}
		snprintf(det, sizeof det, "random %zu-byte file (fill kind %d)", L, fillk);
		try_bytes(b, L, "random-file", det);
		case_hash(fnv64(b, L, L));
		free(b);
	}
	if (want_sample()) sample("random: 16 seeded random files (0..8192 bytes) with a valid magic pasted in most of them and plausible/implausible index offsets");
	unlink(g_path);
}

int main(int argc, char **argv)
{
	args_t a;
	parse_args(argc, argv, &a);
	case_fn f = NULL;
	if (!strcmp(a.sub, "mut")) f = case_mut;
	else if (!strcmp(a.sub, "tiny")) f = case_tiny;
	else if (!strcmp(a.sub, "random")) f = case_random;
	else return 98;
	return run_cases(&a, f);
}
