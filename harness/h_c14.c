/* C14: no data races in the concurrent uses the API allows (ThreadSanitizer build).
 *   pool     2..6 caller threads, each with its own pooled writer and pooled sorter, all sharing ONE pool
 *   reader   4..12 threads on one open reader through private iterators (scan, get, get_prefix, get_range, seek storms)
 *   crc      concurrent mtbl_crc32c from many threads
 * Results are sanity-checked (so that a race that corrupts data is not silently "passed"); race reports come from TSan.
 */
#include "family.h"
#include "delay_shim.h"

typedef struct { const args_t *a; long c; int idx; uint64_t seed; struct mtbl_threadpool *pool; char path[400], tdir[400]; int ok; uint64_t jobs; } wl_t;

static void *caller_thread(void *arg)
{
	wl_t *w = arg;
	rng_t rr; rng_init(&rr, w->seed, w->idx); rng_t *r = &rr;
	/* pooled writer: many small blocks */
	wcfg_t cfg; gen_wcfg(r, &cfg); cfg.comp = (w->idx + (int)w->c) % 6; cfg.level = LEVEL_DEFAULT; cfg.block_size = 1024; cfg.prefix_len = 0; cfg.use_fd = 0;
	model_t m; model_init(&m);
	size_t n = 200 + rndn(r, 400);
	for (size_t i = 0; i < n; i++) { uint8_t k[24]; size_t lk = snprintf((char *)k, sizeof k, "k%07zu", i); uint8_t v2[200]; size_t lv = 20 + rndn(r, 180); for (size_t j = 0; j < lv; j++) v2[j] = (uint8_t)(i + j); model_push(&m, k, lk, v2, lv); }
	unlink(w->path);
	struct mtbl_writer_options *wo = wcfg_options(&cfg, w->pool);
	struct mtbl_writer *wr = mtbl_writer_init(w->path, wo);
	mtbl_writer_options_destroy(&wo);
	for (size_t i = 0; i < m.n; i++) if (mtbl_writer_add(wr, m.e[i].k.p, m.e[i].k.n, m.e[i].v.p, m.e[i].v.n) != mtbl_res_success) w->ok = 0;
	mtbl_writer_destroy(&wr);
	struct mtbl_reader *rd = mtbl_reader_init(w->path, NULL);
	if (!rd) w->ok = 0;
	else {
		struct mtbl_iter *it = mtbl_source_iter(mtbl_reader_source(rd)); const uint8_t *k, *v; size_t lk, lv, i = 0;
		while (mtbl_iter_next(it, &k, &lk, &v, &lv) == mtbl_res_success) { if (i >= m.n || lk != m.e[i].k.n || memcmp(k, m.e[i].k.p, lk) || lv != m.e[i].v.n || memcmp(v, m.e[i].v.p, lv)) { w->ok = 0; break; } i++; }
		if (i != m.n) w->ok = 0;
		w->jobs += mtbl_metadata_count_data_blocks(mtbl_reader_metadata(rd));
		mtbl_iter_destroy(&it); mtbl_reader_destroy(&rd);
	}
	unlink(w->path);
	/* pooled sorter: many small chunks (MTBL_VERIF) */
	struct mtbl_sorter_options *so = mtbl_sorter_options_init();
	mtbl_sorter_options_set_temp_dir(so, w->tdir);
	mtbl_sorter_options_set_max_memory(so, 1500 + rndn(r, 3000));
	mclos_t mc; memset(&mc, 0, sizeof mc); mc.dso_style = 1;
	mtbl_sorter_options_set_merge_func(so, ms_merge_cb, &mc);
	mtbl_sorter_options_set_threadpool(so, w->pool);
	struct mtbl_sorter *s = mtbl_sorter_init(so);
	mtbl_sorter_options_destroy(&so);
	size_t adds = 300 + rndn(r, 300), distinct = 0; uint8_t seen[512] = {0};
	for (size_t i = 0; i < adds; i++) {
		unsigned ki = rndn(r, 400); uint8_t k[24]; size_t lk = snprintf((char *)k, sizeof k, "s%05u", ki);
		uint8_t v2[8]; ms_put_id(v2, ((uint64_t)(w->idx + 1) << 32) | i);
		if (!(seen[ki / 8] & (1 << (ki % 8)))) { seen[ki / 8] |= 1 << (ki % 8); distinct++; }
		if (mtbl_sorter_add(s, k, lk, v2, 8) != mtbl_res_success) w->ok = 0;
	}
	struct mtbl_iter *it = mtbl_sorter_iter(s);
	const uint8_t *k, *v; size_t lk, lv, got = 0, ids = 0;
	while (it && mtbl_iter_next(it, &k, &lk, &v, &lv) == mtbl_res_success) { got++; ids += lv / 8; }
	if (got != distinct || ids != adds) w->ok = 0;
	mtbl_iter_destroy(&it);
	mtbl_sorter_destroy(&s);
	/* a second pooled sorter whose merge callback fails for one key while chunks are written on the workers: the application keeps
	   adding (the pooled sorter cannot report the failure) and finally destroys the sorter without iterating */
	{
		struct mtbl_sorter_options *so2 = mtbl_sorter_options_init();
		mtbl_sorter_options_set_temp_dir(so2, w->tdir);
		mtbl_sorter_options_set_max_memory(so2, 300 + rndn(r, 500));
		mclos_t mc2; memset(&mc2, 0, sizeof mc2); mc2.dso_style = 1;
		static const uint8_t badkey[] = "s00007";
		mc2.have_fail = 1; mc2.fail_key = badkey; mc2.fail_len = 6;
		mtbl_sorter_options_set_merge_func(so2, ms_merge_cb, &mc2);
		mtbl_sorter_options_set_threadpool(so2, w->pool);
		struct mtbl_sorter *s2 = mtbl_sorter_init(so2);
		mtbl_sorter_options_destroy(&so2);
		for (size_t i = 0; i < 200; i++) {
			unsigned ki = (i % 3 == 0) ? 7 : rndn(r, 60); uint8_t k2[24]; size_t lk2 = snprintf((char *)k2, sizeof k2, "s%05u", ki);
			uint8_t v3[8]; ms_put_id(v3, i + 1);
			if (mtbl_sorter_add(s2, k2, lk2, v3, 8) != mtbl_res_success) break;
		}
		mtbl_sorter_destroy(&s2);
	}
	model_free(&m);
	return NULL;
}

static void case_pool(const args_t *a, long c, rng_t *r)
{
	int ncallers = 2 + rndn(r, 5), psize = 1 + rndn(r, 4);
	struct mtbl_threadpool *pool = mtbl_threadpool_init(psize);
	wl_t w[6]; pthread_t th[6];
	g_delay_permille = (c % 3) ? 150 : 0; g_delay_seed = a->seed + c;
	for (int i = 0; i < ncallers; i++) {
		memset(&w[i], 0, sizeof w[i]); w[i].a = a; w[i].c = c; w[i].idx = i; w[i].seed = rnd64(r); w[i].pool = pool; w[i].ok = 1;
		snprintf(w[i].path, sizeof w[i].path, "%s/c14-%ld-%d.mtbl", a->workdir, c, i);
		snprintf(w[i].tdir, sizeof w[i].tdir, "%s", a->workdir);
		pthread_create(&th[i], NULL, caller_thread, &w[i]);
	}
	for (int i = 0; i < ncallers; i++) { pthread_join(th[i], NULL); if (!w[i].ok) inconclusive("pool workload %ld caller %d produced wrong results (C13's concern; not a race verdict)", c, i); stat_add("pool.block_jobs", w[i].jobs); }
	mtbl_threadpool_destroy(&pool);
	g_delay_permille = 0;
	statf(1, "pool.callers.%d", ncallers); statf(1, "pool.size.%d", psize);
	STAT("pool.runs");
	if (want_sample()) sample("pool: %d caller threads, each with its own pooled writer (1 KiB blocks, all compression types) and pooled sorter (small chunks), sharing one pool of %d threads; delay injection %s", ncallers, psize, (c % 3) ? "on" : "off");
	case_hash(((uint64_t)c * 4 + 1) ^ (a->seed << 20));
}

typedef struct { const struct mtbl_source *src; const model_t *m; uint64_t seed; int idx; int ok; uint64_t ops; } rl_t;

static void *reader_thread(void *v)
{
	rl_t *t = v; rng_t rr; rng_init(&rr, t->seed, t->idx); rng_t *r = &rr;
	const model_t *m = t->m;
	for (int round = 0; round < 6; round++) {
		int what = (t->idx + round) % 5;
		const uint8_t *k, *val; size_t lk, lv;
		if (what == 0) {
			struct mtbl_iter *it = mtbl_source_iter(t->src); size_t i = 0;
			while (mtbl_iter_next(it, &k, &lk, &val, &lv) == mtbl_res_success) { if (i >= m->n || lk != m->e[i].k.n || memcmp(k, m->e[i].k.p, lk) || lv != m->e[i].v.n || memcmp(val, m->e[i].v.p, lv)) { t->ok = 0; break; } i++; t->ops++; }
			if (i != m->n) t->ok = 0;
			mtbl_iter_destroy(&it);
		} else if (what == 4) {
			struct mtbl_iter *it = mtbl_source_iter(t->src);
			for (int j = 0; j < 300; j++) {
				size_t x = rndn(r, (uint32_t)m->n);
				if (mtbl_iter_seek(it, m->e[x].k.p, m->e[x].k.n) != mtbl_res_success) t->ok = 0;
				for (int q = 0; q < 3 && x + q < m->n; q++) { if (mtbl_iter_next(it, &k, &lk, &val, &lv) != mtbl_res_success || lk != m->e[x + q].k.n || memcmp(k, m->e[x + q].k.p, lk)) { t->ok = 0; break; } t->ops++; }
			}
			mtbl_iter_destroy(&it);
		} else {
			for (int j = 0; j < 300; j++) {
				size_t x = rndn(r, (uint32_t)m->n), y = x + rndn(r, 5); if (y >= m->n) y = m->n - 1;
				struct mtbl_iter *it = what == 1 ? mtbl_source_get(t->src, m->e[x].k.p, m->e[x].k.n) : what == 2 ? mtbl_source_get_prefix(t->src, m->e[x].k.p, m->e[x].k.n) : mtbl_source_get_range(t->src, m->e[x].k.p, m->e[x].k.n, m->e[y].k.p, m->e[y].k.n);
				if (mtbl_iter_next(it, &k, &lk, &val, &lv) != mtbl_res_success || lk != m->e[x].k.n || memcmp(k, m->e[x].k.p, lk) || lv != m->e[x].v.n || memcmp(val, m->e[x].v.p, lv)) t->ok = 0;
				while (mtbl_iter_next(it, &k, &lk, &val, &lv) == mtbl_res_success) t->ops++;
				mtbl_iter_destroy(&it); t->ops++;
			}
		}
	}
	return NULL;
}

static void case_reader(const args_t *a, long c, rng_t *r)
{
	wcfg_t cfg; gen_wcfg(r, &cfg); cfg.comp = c % 6; cfg.level = LEVEL_DEFAULT; cfg.block_size = 1024; cfg.pool = -1; cfg.prefix_len = 0; cfg.use_fd = 0; cfg.verify = (c / 6) % 2;
	model_t m; model_init(&m);
	size_t n = 500 + rndn(r, 1500);
	/* content class: counter bytes / long runs of one byte (blocks that expand > 30x when read) / incompressible; larger blocks for the runs */
	int content = (int)((c / 12) % 3);
	if (content == 1) cfg.block_size = 8192u << rndn(r, 3);
	for (size_t i = 0; i < n; i++) {
		uint8_t k[24]; size_t lk = snprintf((char *)k, sizeof k, "r%07zu", i * 3);
		uint8_t v[400]; size_t lv = content == 1 ? 300 + rndn(r, 50) : 10 + rndn(r, 110);
		for (size_t j = 0; j < lv; j++) v[j] = content == 0 ? (uint8_t)(i * 7 + j) : content == 1 ? (uint8_t)('a' + i % 3) : (uint8_t)rnd64(r);
		model_push(&m, k, lk, v, lv);
	}
	char path[4096]; snprintf(path, sizeof path, "%s/c14r-%ld.mtbl", a->workdir, c);
	write_model(path, &cfg, &m, NULL);
	struct mtbl_reader *rd = open_reader(path, &cfg);
	if (!rd) { inconclusive("reader NULL"); model_free(&m); return; }
	int nt = 4 + rndn(r, 9);
	rl_t t[12]; pthread_t th[12];
	for (int i = 0; i < nt; i++) { t[i].src = mtbl_reader_source(rd); t[i].m = &m; t[i].seed = rnd64(r); t[i].idx = i; t[i].ok = 1; t[i].ops = 0; pthread_create(&th[i], NULL, reader_thread, &t[i]); }
	for (int i = 0; i < nt; i++) { pthread_join(th[i], NULL); if (!t[i].ok) inconclusive("reader workload %ld thread %d read wrong data (not a race verdict by itself)", c, i); stat_add("reader.ops", t[i].ops); }
	mtbl_reader_destroy(&rd);
	unlink(path);
	statf(1, "reader.threads.%d", nt); statf(1, "reader.comp.%s", COMP_NAME[cfg.comp]); statf(1, "reader.verify.%d", cfg.verify); statf(1, "reader.content.%s", content == 0 ? "counter" : content == 1 ? "runs" : "random");
	STAT("reader.runs");
	if (want_sample()) sample("reader: %d threads on one open reader (%zu entries, comp=%s, verify_checksums=%d), each with private iterators: full scans, get, get_prefix, get_range, seek storms", nt, m.n, COMP_NAME[cfg.comp], cfg.verify);
	case_hash(((uint64_t)c * 4 + 2) ^ (a->seed << 20));
	model_free(&m);
}

static void *crc_thread(void *v)
{
	uint64_t *out = v; uint8_t buf[777];
	for (size_t i = 0; i < sizeof buf; i++) buf[i] = (uint8_t)(i * 13);
	uint64_t acc = 0;
	for (int i = 0; i < 2000; i++) acc += mtbl_crc32c(buf + (i % 8), sizeof buf - 8 - (i % 64));
	*out = acc;
	return NULL;
}
static void case_crc(const args_t *a, long c, rng_t *r)
{
	(void)a; (void)c; (void)r;
	pthread_t th[12]; uint64_t out[12];
	for (int i = 0; i < 12; i++) pthread_create(&th[i], NULL, crc_thread, &out[i]);
	for (int i = 0; i < 12; i++) pthread_join(th[i], NULL);
	for (int i = 1; i < 12; i++) if (out[i] != out[0]) inconclusive("concurrent crc results differ");
	stat_add("crc.calls", 12 * 2000);
	STAT("crc.runs");
	case_hash(3);
}

int main(int argc, char **argv)
{
	args_t a;
	parse_args(argc, argv, &a);
	case_fn f = NULL;
	if (!strcmp(a.sub, "pool")) f = case_pool;
	else if (!strcmp(a.sub, "reader")) f = case_reader;
	else if (!strcmp(a.sub, "crc")) f = case_crc;
	else return 98;
	int rc = run_cases(&a, f);
	return rc;
}
