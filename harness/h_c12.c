/* C12: intact files verify; damaged blocks are never accepted.
 *   intact   files of every configuration: mtbl_verify says OK / exit 0, verifying reader reads everything
 *   small    tiny uncompressed/compressed files: EVERY single-bit flip of every block's (crc || stored bytes), index included
 *   seeded   larger files: seeded 2-bit, 3-bit and burst<=32 faults, every block role (first/middle/last/index) hit
 * Observation: (a) the real mtbl_verify tool exec'd on the damaged file; (b) a forked child opens with
 * verify_checksums and streams one byte per entry returned through a pipe, by one of five access paths.
 */
#include "gen.h"
#include "refdec.h"

static const char *verify_tool;

typedef struct { uint64_t lo, hi; size_t first_entry, n_entries; int is_index; } region_t;  /* [lo,hi) = crc field + stored bytes */

static int g_env_mode;   /* MTBL_READER_MADVISE_RANDOM for the next observation: 0 unset, 1 "0", 2 "1" */
static int g_companion;  /* 0: the file alone; 1: an intact copy named before it on the command line; 2: after it */
static int g_opt_pattern; /* order and repetition of the reader option setter calls (all patterns end with verify_checksums on) */
static int run_verify_tool(const char *path, char *out, size_t outsz)
{
	char good[4200]; snprintf(good, sizeof good, "%s.good", path);
	int comp = g_companion && access(good, R_OK) == 0 ? g_companion : 0;
	char cmd[13000]; snprintf(cmd, sizeof cmd, "%s%s %s%s%s%s%s 2>/dev/null", g_env_mode == 0 ? "" : g_env_mode == 1 ? "MTBL_READER_MADVISE_RANDOM=0 " : "MTBL_READER_MADVISE_RANDOM=1 ", verify_tool,
		comp == 1 ? good : "", comp == 1 ? " " : "", path, comp == 2 ? " " : "", comp == 2 ? good : "");
	statf(1, "tool.command_line.%s", comp == 0 ? "file-alone" : comp == 1 ? "intact-file-first" : "intact-file-last");
	FILE *p = popen(cmd, "r");
	if (!p) return -2;
	size_t n = fread(out, 1, outsz - 1, p); out[n] = 0;
	return pclose(p);
}

enum { M_ITER, M_GET, M_PREFIX, M_RANGE, M_SEEK, M_SEEKBACK, M_N };
static const char *MODE[] = {"iterate", "get", "get_prefix", "get_range", "iter+seek", "iter+seek-past+seek-back"};

/* returns number of entries the child emitted; *status = wait status */
static long reader_child(const char *path, int mode, const model_t *m, size_t start, size_t stop_key_idx, int *status)
{
	int pf[2];
	if (pipe(pf) != 0) return -1;
	fflush(stdout);
	pid_t pid = fork();
	if (pid == 0) {
		close(pf[0]);
		alarm(60);                     /* watchdog for a child that spins without emitting */
		if (g_env_mode) setenv("MTBL_READER_MADVISE_RANDOM", g_env_mode == 1 ? "0" : "1", 1); else unsetenv("MTBL_READER_MADVISE_RANDOM");
		int nfd = open("/dev/null", O_WRONLY); dup2(nfd, 2);
		struct mtbl_reader_options *ro = mtbl_reader_options_init();
		switch (g_opt_pattern) {
		case 1: mtbl_reader_options_set_verify_checksums(ro, true); mtbl_reader_options_set_madvise_random(ro, false); break;
		case 2: mtbl_reader_options_set_madvise_random(ro, true); mtbl_reader_options_set_verify_checksums(ro, true); break;
		case 3: mtbl_reader_options_set_verify_checksums(ro, false); mtbl_reader_options_set_verify_checksums(ro, true); mtbl_reader_options_set_madvise_random(ro, true); mtbl_reader_options_set_madvise_random(ro, false); break;
		case 4: mtbl_reader_options_set_madvise_random(ro, false); mtbl_reader_options_set_verify_checksums(ro, true); break;
		default: mtbl_reader_options_set_verify_checksums(ro, true); break;
		}
		struct mtbl_reader *rd = mtbl_reader_init(path, ro);
		if (!rd) _exit(3);
		const struct mtbl_source *s = mtbl_reader_source(rd);
		struct mtbl_iter *it = NULL;
		const ent_t *a = m->n ? &m->e[start < m->n ? start : m->n - 1] : NULL, *b = m->n ? &m->e[stop_key_idx < m->n ? stop_key_idx : m->n - 1] : NULL;
		switch (mode) {
		case M_ITER: it = mtbl_source_iter(s); break;
		case M_GET: it = mtbl_source_get(s, a->k.p, a->k.n); break;
		case M_PREFIX: it = mtbl_source_get_prefix(s, a->k.p, a->k.n); break;
		case M_RANGE: it = mtbl_source_get_range(s, a->k.p, a->k.n, b->k.p, b->k.n); break;
		case M_SEEKBACK:   /* position the iterator in a later block first (the damaged block is jumped over, never loaded), then seek back into it */
			it = mtbl_source_iter(s);
			if (mtbl_iter_seek(it, b->k.p, b->k.n) != mtbl_res_success) _exit(4);
			if (mtbl_iter_seek(it, a->k.p, a->k.n) != mtbl_res_success) _exit(4);
			break;
		default: it = mtbl_source_iter(s); if (mtbl_iter_seek(it, a->k.p, a->k.n) != mtbl_res_success) _exit(4); break;
		}
		const uint8_t *k, *v; size_t lk, lv;
		while (mtbl_iter_next(it, &k, &lk, &v, &lv) == mtbl_res_success) { char c = 'e'; if (write(pf[1], &c, 1) != 1) break; }
		_exit(0);
	}
	close(pf[1]);
	long n = 0; char buf[4096]; ssize_t r;
	while ((r = read(pf[0], buf, sizeof buf)) > 0) {
		n += r;
		if (n > (long)m->n + 16) { kill(pid, SIGKILL); break; }   /* a damaged block being parsed can yield entries forever */
	}
	close(pf[0]);
	waitpid(pid, status, 0);
	return n;
}

static void flip(int fd, uint64_t off, uint8_t mask) { uint8_t b; if (pread(fd, &b, 1, off) != 1) return; b ^= mask; if (pwrite(fd, &b, 1, off) != 1) return; }

typedef struct { uint64_t bit[40]; int n; } fault_t;   /* absolute bit positions in the file */
static void apply_fault(int fd, const fault_t *f) { for (int i = 0; i < f->n; i++) flip(fd, f->bit[i] / 8, (uint8_t)(1u << (f->bit[i] % 8))); }

static const char *role_of(const region_t *rg, size_t bi, size_t nblocks)
{
	if (rg->is_index) return "index";
	if (bi == 0) return "first";
	if (bi + 1 == nblocks) return "last";
	return "middle";
}

/* one fault: apply, observe by both paths, revert */
static void observe_fault(const char *path, int fd, const model_t *m, const region_t *rg, size_t bi, size_t nblocks, const fault_t *f,
			  const char *cls, int use_tool, int mode, rng_t *r)
{
	apply_fault(fd, f);
	g_env_mode = (int)((f->bit[0] / 3) % 4); if (g_env_mode == 3) g_env_mode = 0;      /* half of the observations with the madvise environment override set */
	statf(1, "faults.env_madvise.%s", g_env_mode == 0 ? "unset" : g_env_mode == 1 ? "0" : "1");
	g_companion = (int)((f->bit[0] / 5) % 4); if (g_companion == 3) g_companion = 1;          /* a quarter alone, half after an intact file, a quarter before one */
	g_opt_pattern = (int)((f->bit[0] / 7) % 5);
	statf(1, "faults.reader_option_calls.pattern%d", g_opt_pattern);
	const char *role = role_of(rg, bi, nblocks);
	char desc[160]; snprintf(desc, sizeof desc, "%s fault (%d bit(s), first at file bit %" PRIu64 ") in %s block %zu", cls, f->n, f->bit[0], role, bi);
	if (use_tool) {
		char out[1024]; int st = run_verify_tool(path, out, sizeof out);
		char want[4200]; snprintf(want, sizeof want, "%s: OK", path);
		if (strstr(out, want)) viol("C12/verify-tool-reports-damaged-file-OK", "mtbl_verify printed OK for a file with a %s", desc);
		else if (WIFEXITED(st) && WEXITSTATUS(st) == 0) viol("C12/verify-tool-exit-0-on-damaged-file", "mtbl_verify exited 0 for a file with a %s", desc);
		else { statf(1, "detected.verify_tool.%s", WIFSIGNALED(st) || (WIFEXITED(st) && WEXITSTATUS(st) > 127) ? "abort-at-open" : "reports-failed"); }
		statf(1, "faults.tool.%s.%s", cls, role);
	}
	if (m->n) {
		/* choose the start so that the access path reaches the damaged block */
		size_t start, stop, allowed;
		size_t fd_first = rg->is_index ? 0 : rg->first_entry;
		size_t in_block = rg->is_index ? rndn(r, m->n) : rg->first_entry + rndn(r, rg->n_entries);
		switch (mode) {
		case M_ITER: start = 0; stop = 0; allowed = rg->is_index ? 0 : fd_first; break;
		case M_GET: case M_PREFIX: start = in_block; stop = in_block; allowed = 0; break;
		case M_RANGE: start = fd_first ? fd_first - 1 - rndn(r, fd_first > 3 ? 3 : fd_first) : 0; stop = in_block; allowed = rg->is_index ? 0 : fd_first - start; break;
		case M_SEEKBACK: start = in_block; stop = rg->is_index ? in_block : rg->first_entry + rg->n_entries; allowed = 0;
			if (stop >= m->n) { stop = in_block; mode = M_SEEK; }        /* the damaged block is the last one: nothing lies past it */
			break;
		default: start = in_block; stop = in_block; allowed = 0; break;
		}
		if (rg->is_index) allowed = 0;
		int st; long n = reader_child(path, mode, m, start, stop, &st);
		if (n > (long)allowed)
			viol("C12/verifying-reader-returned-entry-from-damaged-block", "reader with verify_checksums, path %s: returned %ld entries although only %zu precede the damaged block (%s)", MODE[mode], n, allowed, desc);
		else if (WIFSIGNALED(st) && WTERMSIG(st) == SIGALRM)
			viol("C12/verifying-reader-hangs-on-damaged-block", "reader with verify_checksums, path %s: no progress for 60 s (%s)", MODE[mode], desc);
		else if (WIFEXITED(st) && WEXITSTATUS(st) == 0 && mode == M_ITER)
			viol("C12/verifying-reader-completed-over-damaged-block", "reader with verify_checksums iterated to the end of a file with a %s", desc);
		else statf(1, "detected.reader.%s.%s", MODE[mode], WIFSIGNALED(st) ? "process-stopped" : "no-entry-returned");
		statf(1, "faults.reader.%s.%s", cls, role);
	}
	apply_fault(fd, f);   /* XOR again = revert */
	STAT("faults");
}

static region_t *regions_of(const char *path, const wcfg_t *cfg, size_t *nreg, size_t *nblocks)
{
	size_t len; uint8_t *data = read_file(path, &len);
	rd_file_t f;
	if (!data || rd_parse(data, len, (int64_t)cfg->prefix_len, &f) != 0) { inconclusive("decoder rejects written file: %s", data ? f.err : "unreadable"); free(data); return NULL; }
	{ char good[4200]; snprintf(good, sizeof good, "%s.good", path); write_file(good, data, len); }      /* intact companion for multi-file mtbl_verify command lines */
	region_t *rg = xcalloc(f.n_blocks + 1, sizeof(region_t));
	size_t gi = 0;
	for (size_t b = 0; b < f.n_blocks; b++) {
		rg[b].lo = f.blocks[b].file_off + f.blocks[b].len_len; rg[b].hi = f.blocks[b].file_off + f.blocks[b].frame_len;
		rg[b].first_entry = gi; rg[b].n_entries = f.blocks[b].n_ents; gi += f.blocks[b].n_ents;
	}
	rg[f.n_blocks].lo = f.index.file_off + f.index.len_len; rg[f.n_blocks].hi = f.index.file_off + f.index.frame_len; rg[f.n_blocks].is_index = 1;
	*nreg = f.n_blocks + 1; *nblocks = f.n_blocks;
	rd_free(&f); free(data);
	return rg;
}

static void make_file(const args_t *a, rng_t *r, long c, wcfg_t *cfg, model_t *m, const char *path, int tiny)
{
	shape_t sh;
	gen_wcfg(r, cfg);
	if (tiny) { cfg->block_size = 1024; cfg->pool = -1; cfg->comp = (c % 4 == 3) ? 1 + rndn(r, 5) : 0; cfg->level = LEVEL_DEFAULT; }
	gen_shape(r, &sh, cfg->block_size, 0);
	if (sh.pfx_len > 100) sh.pfx_len = 100;
	if (tiny) { int w[6] = {0, 10, 40, 10, 0, 0}; memcpy(sh.vclass_weights, w, sizeof w); }
	size_t n = tiny ? 6 + rndn(r, 6) : 50 + rndn(r, a->thorough ? 3000 : 800);
	if (!tiny && rndp(r, 40)) n = rndn(r, 3);
	gen_model(r, &sh, n, n && rndp(r, 150), m);
	shape_free(&sh);
	struct mtbl_threadpool *pool = wcfg_pool(cfg);
	write_model(path, cfg, m, pool);
	if (pool) mtbl_threadpool_destroy(&pool);
}

#define SLICES 8
static void case_small(const args_t *a, long cc, rng_t *r0)
{
	/* case = (file, slice): the same file is regenerated from the file index; each slice enumerates 1/SLICES of its bits */
	long c = cc / SLICES, slice = cc % SLICES;
	rng_t rr, *r = &rr; (void)r0;
	case_rng(r, a, c);
	wcfg_t cfg; model_t m; char path[4096];
	snprintf(path, sizeof path, "%s/c12s-%ld.mtbl", a->workdir, cc);
	make_file(a, r, c, &cfg, &m, path, 1);
	size_t nreg, nb; region_t *rg = regions_of(path, &cfg, &nreg, &nb);
	if (rg) {
		int fd = open(path, O_RDWR);
		uint64_t total_bits = 0;
		for (size_t b = 0; b < nreg; b++) total_bits += (rg[b].hi - rg[b].lo) * 8;
		if (want_sample()) sample("small: %zu entries in %zu data blocks + index (%s): all %" PRIu64 " single-bit flips of every block's crc+stored bytes, each observed through the verifying reader (5 access paths round-robin) and, sampled, the mtbl_verify tool", m.n, nb, wcfg_str(&cfg), total_bits);
		/* every bit, unless the file is so large that one slice would hold more than 40000 faults (minutes of forked observations each):
		   then every stride-th bit of the slice, plus the first 40 and last 16 bits of every block; the evidence says which files were strided */
		uint64_t k = 0, done = 0, per_slice = total_bits / SLICES, stride = per_slice > 40000 ? (per_slice + 39999) / 40000 : 1;
		for (size_t b = 0; b < nreg; b++)
			for (uint64_t bit = rg[b].lo * 8; bit < rg[b].hi * 8; bit++, k++) {
				if ((long)(k % SLICES) != slice) continue;
				if (stride > 1 && (k / SLICES) % stride != 0 && !(bit - rg[b].lo * 8 < 40 || rg[b].hi * 8 - bit <= 16)) continue;
				done++;
				fault_t f; f.n = 1; f.bit[0] = bit;
				int tool = a->thorough ? ((k / SLICES) % 4 == 0) : ((k / SLICES) % 24 == 0);
				/* the first 40 bits (crc field + first stored byte) and last 16 always go through the tool too */
				if (bit - rg[b].lo * 8 < 40 || rg[b].hi * 8 - bit <= 16) tool = 1;
				observe_fault(path, fd, &m, &rg[b], b, nb, &f, "single-bit", tool, (int)((k / SLICES) % M_N), r);
			}
		stat_add("small.single_bit_flips_enumerated", done);
		if (slice == 0 && stride > 1) { STAT("small.files_too_large_for_every_bit_strided"); } else if (slice == 0) STAT("small.files_every_bit");
		if (slice == 0) { STAT("small.files"); statf(1, "small.files.%s", COMP_NAME[cfg.comp]); case_hash(model_hash(&m) ^ fnv64(&cfg, sizeof cfg, 0)); }
		close(fd);
		free(rg);
	}
	unlink(path);
	model_free(&m);
}

static void case_seeded(const args_t *a, long c, rng_t *r)
{
	wcfg_t cfg; model_t m; char path[4096];
	snprintf(path, sizeof path, "%s/c12f-%ld.mtbl", a->workdir, c);
	make_file(a, r, c, &cfg, &m, path, 0);
	size_t nreg, nb; region_t *rg = regions_of(path, &cfg, &nreg, &nb);
	if (rg) {
		int fd = open(path, O_RDWR);
		int nf = a->thorough ? 400 : 160;
		for (int i = 0; i < nf; i++) {
			/* every role is hit: first, last, index, then random blocks */
			size_t b = i % 4 == 0 ? 0 : i % 4 == 1 ? nb - (nb ? 1 : 0) : i % 4 == 2 ? nreg - 1 : rndn(r, nreg);
			if (b >= nreg) b = nreg - 1;
			uint64_t lo = rg[b].lo * 8, nbits = (rg[b].hi - rg[b].lo) * 8;
			fault_t f; const char *cls;
			switch (i % 5) {
			case 0: f.n = 2; cls = "double-bit"; break;
			case 1: f.n = 3; cls = "triple-bit"; break;
			case 2: f.n = 1; cls = "single-bit"; break;
			default: f.n = 0; cls = "burst<=32"; break;
			}
			if (f.n) {
				for (int j = 0; j < f.n; j++) { f.bit[j] = lo + (i % 10 == 0 && j == 0 ? rndn(r, 32) /* in the crc field */ : rndn(r, (uint32_t)nbits)); for (int q = 0; q < j; q++) if (f.bit[q] == f.bit[j]) { j--; break; } }
			} else {
				/* burst of length L <= 32: first and last bit flipped, the ones in between random */
				unsigned L = 2 + rndn(r, 31); if (L > nbits) L = (unsigned)nbits;
				uint64_t s = lo + rndn(r, (uint32_t)(nbits - L + 1));
				f.bit[f.n++] = s;
				for (unsigned j = 1; j + 1 < L; j++) if (rndn(r, 2)) f.bit[f.n++] = s + j;
				f.bit[f.n++] = s + L - 1;
			}
			observe_fault(path, fd, &m, &rg[b], b, nb, &f, cls, 1, (int)rndn(r, M_N), r);
		}
		STAT("seeded.files");
		statf(1, "seeded.files.%s", COMP_NAME[cfg.comp]);
		if (want_sample()) sample("seeded: %zu entries, %zu data blocks (%s): %d faults (2-bit, 3-bit, 1-bit, bursts<=32) spread over first/last/index/random blocks", m.n, nb, wcfg_str(&cfg), nf);
		case_hash(model_hash(&m) ^ fnv64(&cfg, sizeof cfg, 1));
		close(fd);
		free(rg);
	}
	unlink(path);
	model_free(&m);
}

static void case_intact(const args_t *a, long c, rng_t *r)
{
	wcfg_t cfg; model_t m; char path[4096];
	snprintf(path, sizeof path, "%s/c12i-%ld.mtbl", a->workdir, c);
	make_file(a, r, c, &cfg, &m, path, c % 5 == 0);
	g_env_mode = (int)(c % 3);
	char out[1024]; int st = run_verify_tool(path, out, sizeof out);
	char want[4200]; snprintf(want, sizeof want, "%s: OK", path);
	if (!strstr(out, want) || st != 0) viol("C12/intact-file-fails-verify", "mtbl_verify on an intact written file: status %d, output '%.100s' (%s, %zu entries)", st, out, wcfg_str(&cfg), m.n);
	int cst; long n = reader_child(path, M_ITER, &m, 0, 0, &cst);
	if (n != (long)m.n || !WIFEXITED(cst) || WEXITSTATUS(cst) != 0) viol("C12/intact-file-not-readable-with-verify", "verifying reader returned %ld of %zu entries (status %d) on an intact file (%s)", n, m.n, cst, wcfg_str(&cfg));
	STAT("intact.files");
	wcfg_stats(&cfg);
	if (m.n == 0) STAT("intact.empty_tables");
	case_hash(model_hash(&m) ^ fnv64(&cfg, sizeof cfg, 2));
	unlink(path);
	model_free(&m);
}

int main(int argc, char **argv)
{
	args_t a;
	parse_args(argc, argv, &a);
	verify_tool = a.aux;
	signal(SIGPIPE, SIG_IGN);
	case_fn f = NULL;
	if (!strcmp(a.sub, "small")) f = case_small;
	else if (!strcmp(a.sub, "seeded")) f = case_seeded;
	else if (!strcmp(a.sub, "intact")) f = case_intact;
	else return 98;
	return run_cases(&a, f);
}
