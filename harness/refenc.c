#include "refenc.h"

#include <lz4.h>
#include <lz4hc.h>
#include <snappy-c.h>
#include <zlib.h>
#include <zstd.h>

static const char *CN[] = {"none", "snappy", "zlib", "lz4", "lz4hc", "zstd"};

void gen_enc_opts(rng_t *r, enc_opts_t *o)
{
	static const int RP[] = {1000, 500, 200, 60, 0};
	static const size_t PFX[] = {0, 0, 1, 13, 512, 4097};
	memset(o, 0, sizeof *o);
	o->version = rndp(r, 450) ? 1 : 2;
	o->comp = rndn(r, 6);
	o->prefix_len = PICK(r, PFX);
	o->restart_permille = PICK(r, RP);
	o->share_mode = rndn(r, 3);
	o->blocks_mode = rndn(r, 10) < 7 ? 0 : (rndn(r, 2) ? 1 : 2);
	o->mean_block_entries = 1 + rndn(r, 40);
	o->index_restart_permille = PICK(r, RP);
	o->index_share_mode = rndn(r, 3);
	o->last_sep_larger = rndn(r, 2);
}
const char *enc_opts_str(const enc_opts_t *o)
{
	static char b[240];
	snprintf(b, sizeof b, "v%d comp=%s prefix=%zu restart-permille=%d share=%s blocks=%s(~%zu) index-restart-permille=%d index-share=%d last-sep-larger=%d",
		 o->version, CN[o->comp], o->prefix_len, o->restart_permille, o->share_mode == 0 ? "maximal" : o->share_mode == 1 ? "random<=lcp" : "none",
		 o->blocks_mode == 0 ? "random-cuts" : o->blocks_mode == 1 ? "single-entry" : "one-block", o->mean_block_entries, o->index_restart_permille, o->index_share_mode, o->last_sep_larger);
	return b;
}

size_t refenc_entry(uint8_t *dst, uint32_t shared, const uint8_t *key, size_t lk, const uint8_t *val, size_t lv)
{
	size_t n = 0;
	n += rd_varint_put(dst + n, shared);
	n += rd_varint_put(dst + n, lk - shared);
	n += rd_varint_put(dst + n, lv);
	memcpy(dst + n, key + shared, lk - shared); n += lk - shared;
	if (val) { memcpy(dst + n, val, lv); n += lv; }
	return n;
}

int refenc_compress(int comp, const uint8_t *in, size_t n, uint8_t **out, size_t *outn, rng_t *r)
{
	switch (comp) {
	case 1: { size_t cap = snappy_max_compressed_length(n); uint8_t *o = xmalloc(cap); if (snappy_compress((const char *)in, n, (char *)o, &cap) != SNAPPY_OK) { free(o); return -1; } *out = o; *outn = cap; return 0; }
	case 2: { uLongf cap = compressBound(n); uint8_t *o = xmalloc(cap); int lvl = r ? (int)rndn(r, 10) : 6; if (compress2(o, &cap, in, n, lvl) != Z_OK) { free(o); return -1; } *out = o; *outn = cap; return 0; }
	case 3: case 4: {
		int cap = LZ4_compressBound((int)n); uint8_t *o = xmalloc(cap + 4);
		int w = comp == 3 ? LZ4_compress_default((const char *)in, (char *)o + 4, (int)n, cap) : LZ4_compress_HC((const char *)in, (char *)o + 4, (int)n, cap, r ? (int)rndn(r, 13) : 9);
		if (w <= 0 && n) { free(o); return -1; }
		rd_put32(o, (uint32_t)n);
		*out = o; *outn = (size_t)w + 4; return 0;
	}
	case 5: { size_t cap = ZSTD_compressBound(n); uint8_t *o = xmalloc(cap); size_t w = ZSTD_compress(o, cap, in, n, r ? 1 + (int)rndn(r, 12) : 3); if (ZSTD_isError(w)) { free(o); return -1; } *out = o; *outn = w; return 0; }
	default: return -1;
	}
}

void refenc_trailer(uint8_t *t, int version, const uint64_t f[9])
{
	memset(t, 0, 512);
	for (int i = 0; i < 9; i++) rd_put64(t + 8 * i, f[i]);
	rd_put32(t + 508, version == 1 ? 0x77846676u : 0x4D54424Cu);
}

typedef struct { uint8_t *p; size_t n, cap; } buf_t;
static void buf_need(buf_t *b, size_t extra) { if (b->n + extra > b->cap) { b->cap = (b->n + extra) * 2 + 64; b->p = xrealloc(b->p, b->cap); } }
static void buf_put(buf_t *b, const void *p, size_t n) { buf_need(b, n); memcpy(b->p + b->n, p, n); b->n += n; }

/* encode entries [i0,i1) of keys/values into a block image with chosen restarts/sharing */
static void enc_block(buf_t *raw, const bs_t *keys, const bs_t *vals, size_t i0, size_t i1, int restart_permille, int share_mode, rng_t *r, enc_stats_t *st)
{
	uint32_t *rs = xmalloc((i1 - i0 + 1) * sizeof(uint32_t)); size_t nrs = 0;
	raw->n = 0;
	rs[nrs++] = 0;                                  /* a block always has restart 0, also when empty */
	for (size_t i = i0; i < i1; i++) {
		bool restart = (i == i0) || rndp(r, restart_permille);
		uint32_t shared = 0;
		if (i > i0 && restart) rs[nrs++] = (uint32_t)raw->n;
		if (!restart) {
			size_t l = lcp(keys[i - 1].p, keys[i - 1].n, keys[i].p, keys[i].n);
			shared = share_mode == 0 ? l : share_mode == 1 ? rndn(r, (uint32_t)l + 1) : 0;
			if (shared < l && st) st->nonmaximal_shares++;
		}
		buf_need(raw, 15 + keys[i].n + vals[i].n);
		raw->n += refenc_entry(raw->p + raw->n, shared, keys[i].p, keys[i].n, vals[i].p, vals[i].n);
	}
	for (size_t j = 0; j < nrs; j++) { uint8_t b[4]; rd_put32(b, rs[j]); buf_put(raw, b, 4); }
	{ uint8_t b[4]; rd_put32(b, (uint32_t)nrs); buf_put(raw, b, 4); }
	if (st) st->restarts += nrs;
	free(rs);
}

static void put_frame(buf_t *file, int version, const uint8_t *stored, size_t n)
{
	uint8_t h[16]; size_t hl;
	if (version == 1) { rd_put32(h, (uint32_t)n); hl = 4; } else hl = rd_varint_put(h, n);
	rd_put32(h + hl, rd_crc32c(stored, n)); hl += 4;
	buf_put(file, h, hl); buf_put(file, stored, n);
}

/* a separator s with last <= s < next (next may be NULL for the final block: s >= last) */
static bs_t choose_sep(const bs_t *last, const bs_t *next, rng_t *r, int last_larger, int *kind)
{
	bs_t cand[6]; int ck[6]; int nc = 0;
	cand[nc] = bs_dup(last->p, last->n); ck[nc++] = 0;
	if (!next) {
		if (last_larger) {
			bs_t s; s.n = last->n + 1 + rndn(r, 2); s.p = xmalloc(s.n); memcpy(s.p, last->p, last->n); for (size_t i = last->n; i < s.n; i++) s.p[i] = (uint8_t)rnd64(r);
			free(cand[0].p); *kind = 5; return s;
		}
		*kind = 0; return cand[0];
	}
	{ bs_t s; s.n = last->n + 1; s.p = xmalloc(s.n); memcpy(s.p, last->p, last->n); s.p[last->n] = 0; cand[nc] = s; ck[nc++] = 1; }
	size_t l = lcp(last->p, last->n, next->p, next->n);
	if (l < last->n && l < next->n && last->p[l] + 1 < next->p[l]) {
		bs_t s; s.n = l + 1; s.p = xmalloc(s.n); memcpy(s.p, last->p, l); s.p[l] = last->p[l] + 1; cand[nc] = s; ck[nc++] = 2;
		bs_t t; t.n = l + 1; t.p = xmalloc(t.n); memcpy(t.p, last->p, l); t.p[l] = (uint8_t)(last->p[l] + 1 + rndn(r, next->p[l] - last->p[l] - 1)); cand[nc] = t; ck[nc++] = 4;
	}
	if (next->n && next->p[next->n - 1] > 0) {
		bs_t s; s.n = next->n + 2; s.p = xmalloc(s.n); memcpy(s.p, next->p, next->n); s.p[next->n - 1]--; s.p[next->n] = 0xff; s.p[next->n + 1] = 0xff; cand[nc] = s; ck[nc++] = 3;
	}
	/* filter by last <= s < next */
	int ok[6], nok = 0;
	for (int i = 0; i < nc; i++) if (key_cmp(last->p, last->n, cand[i].p, cand[i].n) <= 0 && key_cmp(cand[i].p, cand[i].n, next->p, next->n) < 0) ok[nok++] = i;
	int pick = ok[rndn(r, nok)];     /* candidate 0 (last itself) is always legal */
	for (int i = 0; i < nc; i++) if (i != pick) free(cand[i].p);
	*kind = ck[pick];
	return cand[pick];
}

int refenc_build(const model_t *m, const enc_opts_t *o, rng_t *r, uint8_t **out, size_t *len, enc_stats_t *st)
{
	buf_t file = {0}, raw = {0};
	memset(st, 0, sizeof *st);
	/* foreign prefix */
	for (size_t i = 0; i < o->prefix_len; i++) { uint8_t b = (uint8_t)(0x3c ^ (i * 29)); buf_put(&file, &b, 1); }
	/* block boundaries */
	size_t *cuts = xmalloc((m->n + 2) * sizeof(size_t)); size_t nb = 0;
	cuts[0] = 0;
	if (m->n) {
		for (size_t i = 1; i < m->n; i++) {
			bool cut = o->blocks_mode == 1 ? true : o->blocks_mode == 2 ? false : rndn(r, (uint32_t)o->mean_block_entries) == 0;
			if (cut) cuts[++nb] = i;
		}
		cuts[++nb] = m->n;
	}
	st->blocks = nb; st->entries = m->n;
	st->block_first = xmalloc((nb + 1) * sizeof(size_t)); memcpy(st->block_first, cuts, (nb + 1) * sizeof(size_t));
	st->seps = xcalloc(nb ? nb : 1, sizeof(bs_t));
	bs_t *keys = xmalloc((m->n ? m->n : 1) * sizeof(bs_t)), *vals = xmalloc((m->n ? m->n : 1) * sizeof(bs_t));
	for (size_t i = 0; i < m->n; i++) { keys[i] = m->e[i].k; vals[i] = m->e[i].v; }
	uint64_t *offs = xmalloc((nb ? nb : 1) * sizeof(uint64_t));
	uint64_t bytes_data = 0, bk = 0, bv = 0;
	for (size_t b = 0; b < nb; b++) {
		enc_block(&raw, keys, vals, cuts[b], cuts[b + 1], o->restart_permille, o->share_mode, r, st);
		if (cuts[b + 1] - cuts[b] == 1) st->single_entry_blocks++;
		offs[b] = file.n;
		size_t before = file.n;
		if (o->comp == 0) put_frame(&file, o->version, raw.p, raw.n);
		else {
			uint8_t *c; size_t cn;
			if (refenc_compress(o->comp, raw.p, raw.n, &c, &cn, r) != 0) { free(file.p); free(raw.p); free(cuts); free(keys); free(vals); free(offs); return -1; }
			put_frame(&file, o->version, c, cn);
			free(c);
		}
		bytes_data += file.n - before;
		int kind;
		st->seps[b] = choose_sep(&keys[cuts[b + 1] - 1], b + 1 < nb ? &keys[cuts[b + 1]] : NULL, r, o->last_sep_larger, &kind);
		st->sep_kind[kind]++;
	}
	for (size_t i = 0; i < m->n; i++) { bk += keys[i].n; bv += vals[i].n; }
	/* index block: keys = separators, values = varint(block offset) */
	bs_t *ivals = xmalloc((nb ? nb : 1) * sizeof(bs_t));
	for (size_t b = 0; b < nb; b++) { ivals[b].p = xmalloc(10); ivals[b].n = rd_varint_put(ivals[b].p, offs[b]); }
	enc_block(&raw, st->seps, ivals, 0, nb, o->index_restart_permille, o->index_share_mode, r, NULL);
	uint64_t ioff = file.n;
	size_t before = file.n;
	put_frame(&file, o->version, raw.p, raw.n);
	uint64_t f[9] = {ioff, 8192, (uint64_t)o->comp, m->n, nb, bytes_data, file.n - before, bk, bv};
	uint8_t t[512]; refenc_trailer(t, o->version, f);
	buf_put(&file, t, 512);
	for (size_t b = 0; b < nb; b++) free(ivals[b].p);
	free(ivals); free(raw.p); free(cuts); free(keys); free(vals); free(offs);
	*out = file.p; *len = file.n;
	return 0;
}

void enc_stats_free(enc_stats_t *st)
{
	if (st->seps) for (size_t i = 0; i < st->blocks; i++) free(st->seps[i].p);
	free(st->seps); free(st->block_first);
	memset(st, 0, sizeof *st);
}
