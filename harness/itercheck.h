/* Monitored iterators: every mtbl_iter obtained from a source is shadowed by a position in the
 * reference model; each next/seek is compared online, and the key/value buffers handed out by
 * the previous next are re-read (buffer-stability monitor) right before the next call on that
 * iterator.  Used for readers (C02, C03, C11), mergers (C05), sorters, filesets. */
#ifndef VERIF_ITERCHECK_H
#define VERIF_ITERCHECK_H

#include "common.h"
#include <mtbl.h>

static const char *g_prop = "C03";     /* signature prefix */

typedef enum { IK_ITER, IK_GET, IK_PREFIX, IK_RANGE } ikind_t;
static const char *IK_NAME[] = {"iter", "get", "get_prefix", "get_range"};

typedef struct { ikind_t kind; bs_t a, b; } ibound_t;

static inline bool inbound(const ibound_t *bd, const ent_t *e)
{
	switch (bd->kind) {
	case IK_ITER: return true;
	case IK_GET: return key_cmp(e->k.p, e->k.n, bd->a.p, bd->a.n) == 0;
	case IK_PREFIX: return has_prefix(e->k.p, e->k.n, bd->a.p, bd->a.n);
	default: return key_cmp(e->k.p, e->k.n, bd->a.p, bd->a.n) >= 0 && key_cmp(e->k.p, e->k.n, bd->b.p, bd->b.n) <= 0;
	}
}
static inline size_t bound_start(const model_t *m, const ibound_t *bd)
{
	return bd->kind == IK_ITER ? 0 : model_lb(m, bd->a.p, bd->a.n);
}

typedef struct {
	struct mtbl_iter *it;          /* NULL is accepted as "no entries" */
	const model_t *m;
	ibound_t bd;
	size_t pos;                    /* model index the next successful next must return */
	bool failed;                   /* sticky failure until the next seek */
	bool have_last;
	const uint8_t *lk, *lv; size_t llk, llv;   /* pointers handed out by the last next */
	bs_t ck, cv;                               /* copies taken at that moment */
	long last_idx;                             /* model index of the last returned entry, -1 none */
	uint64_t ops;
} miter_t;

static inline const char *sigf(const char *what)
{
	static char b[8][96]; static int w;
	char *o = b[w++ & 7];
	snprintf(o, 96, "%s/%s", g_prop, what);
	return o;
}

static inline const char *bound_str(const ibound_t *bd)
{
	static char b[2][300]; static int w;
	char *o = b[w++ & 1];
	switch (bd->kind) {
	case IK_ITER: snprintf(o, 300, "iter()"); break;
	case IK_GET: snprintf(o, 300, "get(%s)", hexs(bd->a.p, bd->a.n)); break;
	case IK_PREFIX: snprintf(o, 300, "get_prefix(%s)", hexs(bd->a.p, bd->a.n)); break;
	default: snprintf(o, 300, "get_range(%s,%s)", hexs(bd->a.p, bd->a.n), hexs(bd->b.p, bd->b.n)); break;
	}
	return o;
}

static inline void miter_open(miter_t *mi, const struct mtbl_source *src, const model_t *m, ikind_t kind,
			      const uint8_t *a, size_t la, const uint8_t *b, size_t lb)
{
	memset(mi, 0, sizeof *mi);
	mi->m = m;
	mi->bd.kind = kind;
	mi->bd.a = bs_dup(a, la);
	mi->bd.b = bs_dup(b, lb);
	mi->last_idx = -1;
	/* the library gets private exact-size copies of the query keys */
	switch (kind) {
	case IK_ITER: mi->it = mtbl_source_iter(src); break;
	case IK_GET: mi->it = mtbl_source_get(src, mi->bd.a.p, la); break;
	case IK_PREFIX: mi->it = mtbl_source_get_prefix(src, mi->bd.a.p, la); break;
	default: mi->it = mtbl_source_get_range(src, mi->bd.a.p, la, mi->bd.b.p, lb); break;
	}
	mi->pos = bound_start(m, &mi->bd);
	statf(1, "iters.opened.%s", IK_NAME[kind]);
	if (!mi->it) statf(1, "iters.null.%s", IK_NAME[kind]);
}

static inline void miter_check_stable(miter_t *mi, const char *ctx)
{
	if (!mi->have_last) return;
	/* ASan turns a freed buffer into a report here; a silent overwrite is caught by the comparison */
	if (mi->llk != mi->ck.n || (mi->llk && memcmp(mi->lk, mi->ck.p, mi->llk) != 0))
		viol(sigf("key-buffer-changed-before-next-call"), "%s %s: key buffer of the last returned entry (%s) changed before the next call on this iterator", ctx, bound_str(&mi->bd), hexs(mi->ck.p, mi->ck.n));
	if (mi->llv != mi->cv.n || (mi->llv && memcmp(mi->lv, mi->cv.p, mi->llv) != 0))
		viol(sigf("value-buffer-changed-before-next-call"), "%s %s: value buffer of the last returned entry (key %s) changed before the next call on this iterator", ctx, bound_str(&mi->bd), hexs(mi->ck.p, mi->ck.n));
	STAT("monitor.buffer_stability_checks");
}
static inline void miter_forget(miter_t *mi)
{
	if (mi->have_last) { bs_free(&mi->ck); bs_free(&mi->cv); mi->have_last = false; }
}

/* returns 1 when an entry was (correctly or not) returned, 0 on failure */
static inline int miter_next(miter_t *mi, const char *ctx)
{
	const uint8_t *k = NULL, *v = NULL; size_t lk = 0, lv = 0;
	miter_check_stable(mi, ctx);
	miter_forget(mi);
	mtbl_res res = mtbl_iter_next(mi->it, &k, &lk, &v, &lv);
	mi->ops++;
	bool expect = !mi->failed && mi->pos < mi->m->n && inbound(&mi->bd, &mi->m->e[mi->pos]);
	if (res != mtbl_res_success) {
		if (expect)
			viol(sigf(mi->it ? "next-fails-but-entry-expected" : "null-iterator-but-entries-expected"), "%s %s: next failed, model expects key %s (model pos %zu of %zu)", ctx, bound_str(&mi->bd), hexs(mi->m->e[mi->pos].k.p, mi->m->e[mi->pos].k.n), mi->pos, mi->m->n);
		mi->failed = true;
		STAT("ops.next.failure");
		return 0;
	}
	STAT("ops.next.success");
	if (!expect) {
		viol(sigf(mi->failed ? "next-succeeds-after-failure-without-seek" : "next-returns-entry-outside-answer"), "%s %s: next returned key %s, model expects failure (model pos %zu of %zu, sticky=%d)", ctx, bound_str(&mi->bd), hexs(k, lk), mi->pos, mi->m->n, mi->failed);
		return 1;
	}
	const ent_t *e = &mi->m->e[mi->pos];
	if (key_cmp(k, lk, e->k.p, e->k.n) != 0)
		viol(sigf("next-wrong-key"), "%s %s: next returned key %s, model expects %s (model pos %zu)", ctx, bound_str(&mi->bd), hexs(k, lk), hexs(e->k.p, e->k.n), mi->pos);
	else if (lv != e->v.n || (lv && memcmp(v, e->v.p, lv) != 0))
		viol(sigf("next-wrong-value"), "%s %s: key %s: value of %zu bytes differs from the model's %zu bytes", ctx, bound_str(&mi->bd), hexs(k, lk), lv, e->v.n);
	mi->last_idx = (long)mi->pos;
	mi->pos++;
	mi->lk = k; mi->llk = lk; mi->lv = v; mi->llv = lv;
	mi->ck = bs_dup(k, lk); mi->cv = bs_dup(v, lv);
	mi->have_last = true;
	return 1;
}

/* t must be >= the start of the iterator's range (caller's obligation) */
static inline void miter_seek(miter_t *mi, const uint8_t *t, size_t lt, const char *ctx)
{
	miter_check_stable(mi, ctx);
	miter_forget(mi);
	uint8_t *copy = xmalloc(lt);          /* exact-size private copy; never a pointer obtained from next */
	if (lt) memcpy(copy, t, lt);
	mtbl_res res = mtbl_iter_seek(mi->it, copy, lt);
	free(copy);
	mi->ops++;
	STAT("ops.seek");
	/* the statements constrain what the following next returns, not the return value of seek itself (an iterator
	   wrapping an empty answer may refuse to seek): a failing seek is only counted */
	if (res != mtbl_res_success) STAT("ops.seek.returned_failure");
	mi->pos = model_lb(mi->m, t, lt);
	mi->failed = false;
}

static inline void miter_close(miter_t *mi)
{
	/* last chance for the stability monitor: nothing else may have touched the buffers */
	miter_check_stable(mi, "close");
	miter_forget(mi);
	mtbl_iter_destroy(&mi->it);
	bs_free(&mi->bd.a); bs_free(&mi->bd.b);
}

/* drain and check the full answer set, then one extra next for stickiness */
static inline size_t miter_drain(miter_t *mi, const char *ctx)
{
	size_t n = 0;
	while (miter_next(mi, ctx)) { n++; if (n > mi->m->n + 5) break; }
	if (miter_next(mi, ctx)) viol(sigf("failure-not-sticky"), "%s %s: next succeeded after a failure", ctx, bound_str(&mi->bd));
	return n;
}

/* ------------------------------------------------------------------ derived query sets */
typedef struct { bs_t *q; size_t n, cap; } qset_t;
static inline void qset_add(qset_t *s, const uint8_t *p, size_t n)
{
	if (s->n == s->cap) { s->cap = s->cap ? s->cap * 2 : 128; s->q = xrealloc(s->q, s->cap * sizeof(bs_t)); }
	s->q[s->n++] = bs_dup(p, n);
}
static int bs_cmp_qsort(const void *a, const void *b) { const bs_t *x = a, *y = b; return key_cmp(x->p, x->n, y->p, y->n); }
static inline void qset_finish(qset_t *s)
{
	if (s->n > 1) qsort(s->q, s->n, sizeof(bs_t), bs_cmp_qsort);
	size_t w = 0;
	for (size_t i = 0; i < s->n; i++) {
		if (w && key_cmp(s->q[w - 1].p, s->q[w - 1].n, s->q[i].p, s->q[i].n) == 0) { free(s->q[i].p); continue; }
		s->q[w++] = s->q[i];
	}
	s->n = w;
}
static inline void qset_free(qset_t *s) { for (size_t i = 0; i < s->n; i++) free(s->q[i].p); free(s->q); memset(s, 0, sizeof *s); }

/* neighbours of one key: itself, predecessor/successor forms, proper prefixes, one-byte extensions */
static inline void qset_add_neighbours(qset_t *s, const uint8_t *k, size_t n, size_t max_prefixes)
{
	uint8_t *t = xmalloc(n + 2);
	qset_add(s, k, n);
	if (n) memcpy(t, k, n);
	t[n] = 0x00; qset_add(s, t, n + 1);                      /* immediate successor */
	t[n] = 0xff; qset_add(s, t, n + 1);
	if (n) {
		qset_add(s, k, n - 1);                               /* drop the trailing byte */
		if (k[n - 1] > 0) { t[n - 1] = k[n - 1] - 1; qset_add(s, t, n); t[n] = 0xff; qset_add(s, t, n + 1); }  /* just below */
		if (k[n - 1] < 0xff) { t[n - 1] = k[n - 1] + 1; qset_add(s, t, n); }
		t[n - 1] = k[n - 1];
		size_t step = n > max_prefixes ? n / max_prefixes : 1;
		for (size_t l = 0; l < n; l += step) qset_add(s, k, l); /* proper prefixes */
	}
	free(t);
}

#endif
