/* C17: mtbl_crc32c / my_crc32c_sse42 / my_crc32c_slicing against a bit-at-a-time CRC-32C.
 * Subcommands: rfc, lenalign (case = content variant), bytepos, random */
#include "common.h"
#include <mtbl.h>

typedef uint32_t (*crc_fp)(const uint8_t *, size_t);
extern crc_fp my_crc32c;
uint32_t my_crc32c_slicing(const uint8_t *, size_t);
#if defined(__x86_64__)
bool my_crc32c_sse42_supported(void);
uint32_t my_crc32c_sse42(const uint8_t *, size_t);
#endif

static int have_sse42;

/* the CPU-feature question the library asks at start-up is answered by this shim (ld --wrap): with VERIF_CPU_WITHOUT_SSE42=1 in the
 * environment the process runs as if on an x86-64 CPU without SSE4.2, so the library's own selection logic takes its fallback arm */
#if defined(__x86_64__)
bool __real_my_crc32c_sse42_supported(void);
static int g_cpu_question_asked, g_forced_without_sse42;
bool __wrap_my_crc32c_sse42_supported(void)
{
	g_cpu_question_asked++;
	const char *e = getenv("VERIF_CPU_WITHOUT_SSE42");
	if (e && e[0] == '1') { g_forced_without_sse42 = 1; return false; }
	return __real_my_crc32c_sse42_supported();
}
#endif

/* reflected CRC-32C (Castagnoli, polynomial 0x1EDC6F41 reflected = 0x82F63B78), one bit at a time */
static uint32_t ref_crc(const uint8_t *p, size_t n)
{
	uint32_t c = 0xffffffffu;
	for (size_t i = 0; i < n; i++) {
		c ^= p[i];
		for (int k = 0; k < 8; k++) c = (c >> 1) ^ (0x82F63B78u & (0u - (c & 1u)));
	}
	return ~c;
}

static void check_all(const uint8_t *p, size_t n, unsigned align, const char *what)
{
	uint32_t want = ref_crc(p, n);
	uint32_t got = mtbl_crc32c(p, n);
	if (got != want) viol("C17/mtbl_crc32c-wrong", "%s len=%zu align=%u: mtbl_crc32c=%08x reference=%08x", what, n, align, got, want);
	STAT("calls.mtbl_crc32c");
	got = my_crc32c_slicing(p, n);
	if (got != want) viol("C17/slicing-wrong", "%s len=%zu align=%u: my_crc32c_slicing=%08x reference=%08x", what, n, align, got, want);
	STAT("calls.slicing");
#if defined(__x86_64__)
	if (have_sse42) {
		got = my_crc32c_sse42(p, n);
		if (got != want) viol("C17/sse42-wrong", "%s len=%zu align=%u: my_crc32c_sse42=%08x reference=%08x", what, n, align, got, want);
		STAT("calls.sse42");
	}
#endif
}

static void fill(uint8_t *p, size_t n, long variant, rng_t *r)
{
	switch (variant % 4) {
	case 0: for (size_t i = 0; i < n; i++) p[i] = (uint8_t)rnd64(r); break;
	case 1: for (size_t i = 0; i < n; i++) p[i] = (uint8_t)(i * 7 + variant); break;
	case 2: memset(p, variant & 8 ? 0xff : 0x00, n); break;
	default: for (size_t i = 0; i < n; i++) p[i] = (i & 1) ? 0x80 : (uint8_t)(rnd64(r) | 1); break;
	}
}

static void sub_rfc(const args_t *a, long c, rng_t *r)
{
	(void)a; (void)c; (void)r;
	uint8_t b[32];
	struct { const char *name; uint32_t crc; } v[] = {{"32x00", 0x8a9136aa}, {"32xff", 0x62a8ab43}, {"ascending", 0x46dd794e}, {"descending", 0x113fdb5c}};
	for (int t = 0; t < 4; t++) {
		for (int i = 0; i < 32; i++) b[i] = t == 0 ? 0 : t == 1 ? 0xff : t == 2 ? i : 31 - i;
		if (ref_crc(b, 32) != v[t].crc) { fprintf(stderr, "harness: reference CRC disagrees with RFC 3720 vector %s\n", v[t].name); exit(99); }
		for (unsigned al = 0; al < 8; al++) {
			uint8_t *m = xmalloc(32 + al);
			memcpy(m + al, b, 32);
			check_all(m + al, 32, al, v[t].name);
			free(m);
		}
		STAT("rfc3720.vectors");
	}
	if (ref_crc((const uint8_t *)"123456789", 9) != 0xe3069283) { fprintf(stderr, "harness: reference CRC check value wrong\n"); exit(99); }
	check_all((const uint8_t *)"123456789", 9, 0, "check-string");
	STAT("rfc3720.vectors");
	/* dispatch: the pointer the library uses after start-up */
	if (my_crc32c == my_crc32c_slicing) STAT("dispatch.slicing");
#if defined(__x86_64__)
	else if (my_crc32c == my_crc32c_sse42) STAT("dispatch.sse42");
#endif
	else STAT("dispatch.other");
	/* force the table-driven implementation through the public entry point */
	crc_fp save = my_crc32c;
	my_crc32c = my_crc32c_slicing;
	for (size_t n = 0; n < 70; n++) {
		uint8_t *m = xmalloc(n);
		for (size_t i = 0; i < n; i++) m[i] = (uint8_t)(i * 37 + 11);
		if (mtbl_crc32c(m, n) != ref_crc(m, n)) viol("C17/forced-slicing-wrong", "mtbl_crc32c via slicing len=%zu", n);
		free(m);
		STAT("calls.forced_slicing");
	}
	my_crc32c = save;
}

static void sub_lenalign(const args_t *a, long c, rng_t *r)
{
	(void)a;
	for (size_t len = 0; len <= 1100; len++) {
		for (unsigned al = 0; al < 8; al++) {
			/* data ends exactly at the end of the allocation: ASan reports any over-read of the tail */
			size_t pad = al + ((16 - ((al + len) & 15)) & 15); /* keep end-of-allocation exact: allocate pad_front + len */
			(void)pad;
			/* malloc returns 16-aligned memory; choose front padding f with (f % 8) == al */
			size_t f = al;
			uint8_t *m = xmalloc(f + len);
			fill(m + f, len, c, r);
			check_all(m + f, len, al, "len-align");
			free(m);
			STAT("lenalign.combinations");
		}
	}
}

static void sub_bytepos(const args_t *a, long c, rng_t *r)
{
	(void)a; (void)r;
	/* every byte value at every position mod 8 in a 64-byte buffer; background varies with the case */
	for (unsigned pos = 0; pos < 8; pos++)
		for (unsigned bv = 0; bv < 256; bv++) {
			uint8_t *m = xmalloc(64);
			memset(m, (int)(c * 0x55), 64);
			m[8 * (c % 7) + pos] = (uint8_t)bv;
			check_all(m, 64, 0, "byte-at-position");
			free(m);
			STAT("bytepos.cells");
		}
}

static void sub_random(const args_t *a, long c, rng_t *r)
{
	size_t maxlen = a->thorough ? (8u << 20) : (512u << 10);
	size_t len;
	switch (c % 4) {
	case 0: len = rndn(r, 4096); break;
	case 1: len = 4096 + rndn(r, 65536); break;
	case 2: len = rndn(r, maxlen); break;
	default: len = (1u << rnd_range(r, 3, 19)) + rndn(r, 17) - 8; break;
	}
	unsigned al = rndn(r, 8);
	uint8_t *m = xmalloc(al + len);
	fill(m + al, len, c, r);
	check_all(m + al, len, al, "random");
	stat_add("random.bytes", len);
	stat_max("max.random.len", len);
	case_hash(fnv64(m + al, len > 64 ? 64 : len, len));
	free(m);
}

/* ---- buffers of 2 GiB and more: a sparse anonymous mapping (zero pages) with a few random islands.  The reference is
 * computed piecewise: islands bit by bit, zero runs through the GF(2) "append n zero bytes" operator (the crc32_combine
 * construction, here for the Castagnoli polynomial), so no other implementation ever walks the whole buffer. */
#include <sys/mman.h>
static uint32_t gf2_times(const uint32_t *mat, uint32_t vec) { uint32_t sum = 0; while (vec) { if (vec & 1) sum ^= *mat; vec >>= 1; mat++; } return sum; }
static void gf2_square(uint32_t *sq, const uint32_t *mat) { for (int n = 0; n < 32; n++) sq[n] = gf2_times(mat, mat[n]); }
static uint32_t crc_combine(uint32_t crc1, uint32_t crc2, uint64_t len2)
{
	uint32_t even[32], odd[32];
	if (len2 == 0) return crc1;
	odd[0] = 0x82F63B78u; uint32_t row = 1;
	for (int n = 1; n < 32; n++) { odd[n] = row; row <<= 1; }
	gf2_square(even, odd); gf2_square(odd, even);
	do {
		gf2_square(even, odd);
		if (len2 & 1) crc1 = gf2_times(even, crc1);
		len2 >>= 1;
		if (!len2) break;
		gf2_square(odd, even);
		if (len2 & 1) crc1 = gf2_times(odd, crc1);
		len2 >>= 1;
	} while (len2);
	return crc1 ^ crc2;
}
static uint32_t crc_of_zeros(uint64_t n)
{
	/* crc(0^n) by doubling: z(2m) = combine(z(m), z(m), m) */
	uint8_t z = 0; uint32_t acc = 0 /* crc of the empty string */, pw = ref_crc(&z, 1); uint64_t pwlen = 1, acclen = 0;
	while (n) {
		if (n & 1) { acc = crc_combine(acc, pw, pwlen); acclen += pwlen; }
		pw = crc_combine(pw, pw, pwlen); pwlen *= 2; n >>= 1;
	}
	(void)acclen;
	return acc;
}
static void sub_huge(const args_t *a, long c, rng_t *r)
{
	(void)a;
	/* case 5 (thorough): 2^35 + 64 MiB + 31 bytes, beyond a 32-bit count of 8-byte words */
	static const uint64_t LEN[] = {(1ULL << 31) + 43, (1ULL << 32) + 8005, 1ULL << 32, (1ULL << 32) - 1, (1ULL << 31) - 5, (1ULL << 35) + (64ULL << 20) + 31};
	uint64_t len = LEN[c % 6]; unsigned al = (c % 6 == 0) ? 3 : (c % 6 == 5) ? 1 : 0;
	/* self-check of the zero-run operator against the plain loop */
	{ static uint8_t zs[5000]; for (size_t n = 0; n < 5000; n += 617) if (crc_of_zeros(n) != ref_crc(zs, n)) { fprintf(stderr, "harness: zero-run operator wrong at %zu\n", n); exit(99); } }
	uint8_t *map = mmap(NULL, len + 4096, PROT_READ | PROT_WRITE, MAP_PRIVATE | MAP_ANONYMOUS | MAP_NORESERVE, -1, 0);
	if (map == MAP_FAILED) { inconclusive("cannot map %" PRIu64 " bytes", len); return; }
	uint8_t *buf = map + al;
	/* islands of random bytes at the start, around 2^31, around 2^32 (if inside) and at the very end */
	uint64_t isl[5] = {0, (1ULL << 31) - 300, (1ULL << 32) - 300, len > (1ULL << 35) ? (1ULL << 35) - 300 : len, len - 700}; size_t il = 600;
	uint32_t want = 0; uint64_t pos = 0;
	for (int i = 0; i < 5; i++) {
		if (isl[i] + il > len || isl[i] < pos) continue;
		for (size_t j = 0; j < il; j++) buf[isl[i] + j] = (uint8_t)rnd64(r);
		want = crc_combine(want, crc_of_zeros(isl[i] - pos), isl[i] - pos);
		want = crc_combine(want, ref_crc(buf + isl[i], il), il);
		pos = isl[i] + il;
	}
	want = crc_combine(want, crc_of_zeros(len - pos), len - pos);
	uint32_t got = mtbl_crc32c(buf, len);
	if (got != want) viol("C17/mtbl_crc32c-wrong", "buffer of %" PRIu64 " bytes (alignment %u): mtbl_crc32c=%08x reference=%08x", len, al, got, want);
	got = my_crc32c_slicing(buf, len);
	if (got != want) viol("C17/slicing-wrong", "buffer of %" PRIu64 " bytes: my_crc32c_slicing=%08x reference=%08x", len, got, want);
#if defined(__x86_64__)
	if (have_sse42) { got = my_crc32c_sse42(buf, len); if (got != want) viol("C17/sse42-wrong", "buffer of %" PRIu64 " bytes: my_crc32c_sse42=%08x reference=%08x", len, got, want); }
#endif
	munmap(map, len + 4096);
	STAT("huge.buffers_ge_2GiB");
	if (len >= (1ULL << 35)) STAT("huge.buffers_ge_32GiB");
	stat_max("max.random.len", len);
	case_hash(len);
}

/* ------------------------------------------------------------------ the CPU-feature test itself, on emulated CPU models: with CPUID faulting (arch_prctl
 * ARCH_SET_CPUID) every cpuid instruction traps; the handler executes the real instruction and rewrites the SSE4.1 / SSE4.2 bits of leaf 1.  The library's
 * my_crc32c_sse42_supported() must answer "SSE4.2 present" exactly for the models that have the SSE4.2 bit. */
#if defined(__x86_64__)
#include <sys/syscall.h>
#include <ucontext.h>
#ifndef ARCH_SET_CPUID
#define ARCH_SET_CPUID 0x1012
#endif
static volatile uint32_t emu_and = 0xffffffffu, emu_or = 0; static volatile int emu_hits;
static void cpuid_trap(int sig, siginfo_t *si, void *ucv)
{
	(void)sig; (void)si;
	ucontext_t *uc = ucv; greg_t *g = uc->uc_mcontext.gregs;
	const uint8_t *ip = (const uint8_t *)g[REG_RIP];
	if (ip[0] != 0x0f || ip[1] != 0xa2) { signal(SIGSEGV, SIG_DFL); return; }       /* a real fault: let it happen again with the default action */
	uint32_t leaf = (uint32_t)g[REG_RAX], sub = (uint32_t)g[REG_RCX], a, b, c, d;
	syscall(SYS_arch_prctl, ARCH_SET_CPUID, 1UL);
	__asm__ volatile("cpuid" : "=a"(a), "=b"(b), "=c"(c), "=d"(d) : "a"(leaf), "c"(sub));
	syscall(SYS_arch_prctl, ARCH_SET_CPUID, 0UL);
	if (leaf == 1) { c = (c & emu_and) | emu_or; emu_hits++; }
	g[REG_RAX] = a; g[REG_RBX] = b; g[REG_RCX] = c; g[REG_RDX] = d; g[REG_RIP] += 2;
}
#endif
static void sub_cpuid(const args_t *a, long c, rng_t *r)
{
	(void)a; (void)c; (void)r;
#if defined(__x86_64__)
	struct sigaction sa, old; memset(&sa, 0, sizeof sa); sa.sa_sigaction = cpuid_trap; sa.sa_flags = SA_SIGINFO | SA_NODEFER;
	sigaction(SIGSEGV, &sa, &old);
	if (syscall(SYS_arch_prctl, ARCH_SET_CPUID, 0UL) != 0) { sigaction(SIGSEGV, &old, NULL); STAT("cpuid.faulting_unavailable_on_this_machine"); return; }
	for (int model = 0; model < 4; model++) {
		int sse41 = model & 1, sse42 = (model >> 1) & 1;
		emu_and = ~((1u << 19) | (1u << 20)); emu_or = (sse41 ? 1u << 19 : 0) | (sse42 ? 1u << 20 : 0);
		int before = emu_hits;
		bool says = __real_my_crc32c_sse42_supported();
		if (emu_hits == before) { STAT("cpuid.library_did_not_execute_cpuid"); continue; }
		statf(1, "cpuid.model.sse41=%d.sse42=%d.library_says_%s", sse41, sse42, says ? "supported" : "unsupported");
		if (says && !sse42) viol("C17/hardware-path-selected-on-a-cpu-without-sse42", "CPU model with SSE4.1=%d and without SSE4.2: my_crc32c_sse42_supported() answers true, the crc32 instruction would be used on a CPU that lacks it", sse41);
		STAT("cpuid.models_emulated");
	}
	emu_and = 0xffffffffu; emu_or = 0;
	syscall(SYS_arch_prctl, ARCH_SET_CPUID, 1UL);
	sigaction(SIGSEGV, &old, NULL);
#endif
	case_hash(0xC9D1D);
}

int main(int argc, char **argv)
{
	args_t a;
	parse_args(argc, argv, &a);
#if defined(__x86_64__)
	have_sse42 = my_crc32c_sse42_supported();
#endif
	stat_add("host.sse42_supported", have_sse42);
#if defined(__x86_64__)
	/* which implementation did the library's start-up selection install? (observed, not set, by the harness) */
	(void)mtbl_crc32c((const uint8_t *)"", 0);
	statf(1, "dispatch.selected.%s", my_crc32c == my_crc32c_slicing ? "slicing" : my_crc32c == my_crc32c_sse42 ? "sse42" : "neither");
	if (g_forced_without_sse42) {
		STAT("dispatch.runs_as_cpu_without_sse42");
		if (my_crc32c != my_crc32c_slicing) viol("C17/no-table-driven-fallback-selected", "on a CPU that does not report SSE4.2 the library did not select the table-driven implementation");
	}
	if (!g_cpu_question_asked) STAT("dispatch.cpu_question_never_asked");
#endif
	case_fn f = NULL;
	if (!strcmp(a.sub, "rfc")) f = sub_rfc;
	else if (!strcmp(a.sub, "lenalign")) f = sub_lenalign;
	else if (!strcmp(a.sub, "bytepos")) f = sub_bytepos;
	else if (!strcmp(a.sub, "random")) f = sub_random;
	else if (!strcmp(a.sub, "huge")) f = sub_huge;
	else if (!strcmp(a.sub, "cpuid")) f = sub_cpuid;
	else return 98;
	if (want_sample()) sample("%s: mtbl_crc32c, my_crc32c_slicing%s compared with a bit-at-a-time CRC-32C on exact-size ASan heap buffers", a.sub, have_sse42 ? ", my_crc32c_sse42" : " (sse4.2 NOT available: hardware path not covered)");
	return run_cases(&a, f);
}
