/* C08: the writer's ordering gate and refusal to open an existing path.
 *   c08     add sequences with ~40% deliberately non-increasing keys; every return value vs the model,
 *           finished file vs the accepted subsequence
 *   c08pre  mtbl_writer_init on pre-existing targets must return NULL and leave them untouched
 */
#include "gen.h"
#include "refdec.h"
#include <dirent.h>

static const char *REFUSED_VAL = "REFUSED-ADD-MUST-NOT-APPEAR";

/* a key strictly greater than `last` */
static void key_above(rng_t *r, const uint8_t *last, size_t ll, uint8_t **pk, size_t *plk, const char **cls)
{
	uint8_t *k = xmalloc(ll + 8); size_t lk;
	int how = rndn(r, 6);
	if (ll) memcpy(k, last, ll);
	if (how == 0 || ll == 0) { lk = ll + 1 + rndn(r, 3); for (size_t i = ll; i < lk; i++) k[i] = (uint8_t)rnd64(r); *cls = "extension"; if (how == 0 && rndp(r, 500)) { k[ll] = 0; lk = ll + 1; *cls = "extension-00"; } }
	else {
		/* bump a byte at a random position that is not 0xff, cut there or keep tail */
		size_t pos = rndn(r, ll), tries = 0;
		while (k[pos] == 0xff && tries++ < ll) pos = (pos + 1) % ll;
		if (k[pos] == 0xff) { lk = ll + 1; k[ll] = (uint8_t)rnd64(r); *cls = "extension"; }
		else {
			if (how == 1 && k[pos] < 0x80) { k[pos] = 0x80 | (uint8_t)rnd64(r); *cls = "sign-trap-up(0x7f->0x80)"; }
			else { k[pos] += 1 + rndn(r, 0xff - k[pos]); *cls = "byte-bumped"; }
			lk = rndp(r, 500) ? pos + 1 : ll;
		}
	}
	*pk = k; *plk = lk;
}
/* a key <= last (equal, proper prefix, byte lowered, sign trap, random smaller); returns 0 if impossible */
static int key_not_above(rng_t *r, const uint8_t *last, size_t ll, uint8_t **pk, size_t *plk, const char **cls)
{
	uint8_t *k = xmalloc(ll + 8); size_t lk = ll;
	if (ll) memcpy(k, last, ll);
	int how = rndn(r, 6);
	if (how == 0 || ll == 0) { *cls = "equal"; }
	else if (how == 1) { lk = rndn(r, ll); *cls = "proper-prefix"; }
	else {
		size_t pos = rndn(r, ll), tries = 0;
		while (k[pos] == 0 && tries++ < ll) pos = (pos + 1) % ll;
		if (k[pos] == 0) { lk = ll - 1; *cls = "proper-prefix"; }
		else {
			if (how == 2 && k[pos] >= 0x80) { k[pos] = (uint8_t)rndn(r, 0x80); *cls = "sign-trap-down(0x80->0x7f)"; }
			else { k[pos] -= 1 + rndn(r, k[pos]); *cls = "byte-lowered"; }
			if (how == 3) { /* lowered byte, then a long tail of 0xff: still smaller */
				lk = pos + 1 + rndn(r, 6); for (size_t i = pos + 1; i < lk; i++) k[i] = 0xff; *cls = "byte-lowered-ff-tail";
			} else if (rndp(r, 300)) lk = pos + 1;
		}
	}
	*pk = k; *plk = lk;
	return 1;
}

static void case_c08(const args_t *a, long c, rng_t *r)
{
	wcfg_t cfg; char path[4096];
	gen_wcfg(r, &cfg);
	static const size_t BS[] = {1, 1024, 1024, 1500, 4096};
	cfg.block_size = PICK(r, BS);
	snprintf(path, sizeof path, "%s/c08-%ld.mtbl", a->workdir, c);
	wcfg_stats(&cfg);
	unlink(path);
	struct mtbl_threadpool *pool = wcfg_pool(&cfg);
	int fd;
	struct mtbl_writer *w = open_writer(path, &cfg, pool, &fd);
	if (!w) { viol("C08/init-null-on-fresh-path", "writer init NULL on fresh path"); return; }
	model_t acc; model_init(&acc);           /* accepted entries, in order */
	size_t nadds = 5 + rndn(r, a->thorough ? 1200 : 500);
	uint8_t *last = NULL; size_t ll = 0; bool have_last = false;
	int first_kind = rndn(r, 5);        /* 4: the first key ends in a 00 byte and is offered again at once (the writer's first refusal concerns a key with a trailing NUL) */
	uint64_t vid = 0;
	char sample_buf[600]; int so = 0;
	for (size_t i = 0; i < nadds; i++) {
		uint8_t *k; size_t lk; const char *cls = "first";
		bool expect;
		if (!have_last) {
			/* first add: anything is accepted, incl. the empty key */
			if (first_kind == 0) { k = xmalloc(1); lk = 0; cls = "first-empty-key"; }
			else { lk = 1 + rndn(r, first_kind == 1 ? 200 : 6); k = xmalloc(lk); for (size_t j = 0; j < lk; j++) k[j] = first_kind == 3 ? TINY_ALPHA[rndn(r, 4)] : (uint8_t)rnd64(r); if (first_kind == 4) { k[lk - 1] = 0; cls = "first-key-ends-in-00"; } }
			expect = true;
		} else if ((i == 1 && first_kind == 4) || rndp(r, 400)) { key_not_above(r, last, ll, &k, &lk, &cls); expect = false; }
		else { key_above(r, last, ll, &k, &lk, &cls); expect = true; }
		/* the model decides, not the generator's intention */
		bool model_expect = !have_last || key_cmp(k, lk, last, ll) > 0;
		if (model_expect != expect) { fprintf(stderr, "harness: generator/model disagree (%s)\n", cls); exit(99); }
		uint8_t vbuf[400]; size_t lv;
		if (expect) { lv = rndn(r, 4) == 0 ? 0 : rndn(r, 300); for (size_t j = 0; j < lv; j++) vbuf[j] = (uint8_t)(vid * 31 + j); vid++; }
		else { lv = strlen(REFUSED_VAL); memcpy(vbuf, REFUSED_VAL, lv); }
		mtbl_res res = mtbl_writer_add(w, k, lk, vbuf, lv);
		if (so < 400 && i < 12) so += snprintf(sample_buf + so, sizeof sample_buf - so, "%s%s:%s", i ? " " : "", hexs(k, lk > 6 ? 6 : lk), res == mtbl_res_success ? "ok" : "refused");
		if ((res == mtbl_res_success) != model_expect) {
			char sig[96]; snprintf(sig, sizeof sig, "C08/%s", model_expect ? "increasing-key-refused" : "non-increasing-key-accepted");
			viol(sig, "add #%zu (%s) key %s after last accepted %s returned %s (%s)", i, cls, hexs(k, lk), have_last ? hexs(last, ll) : "<none>", res == mtbl_res_success ? "success" : "failure", wcfg_str(&cfg));
		}
		statf(1, "c08.adds.%s.%s", model_expect ? "accepted" : "refused", cls);
		if (res == mtbl_res_success) {
			/* follow what the writer did, so later expectations stay aligned with its real state */
			model_push(&acc, k, lk, vbuf, lv);
			free(last); last = k; ll = lk; have_last = true;
		} else free(k);
	}
	free(last);
	mtbl_writer_destroy(&w);
	if (fd >= 0) close(fd);
	if (pool) mtbl_threadpool_destroy(&pool);
	if (want_sample()) sample("c08: %zu adds (%s), first 12: %s", nadds, wcfg_str(&cfg), sample_buf);
	/* finished file == accepted entries: decoder and reader */
	size_t len; uint8_t *data = map_file(path, &len);
	rd_file_t f;
	if (!data || rd_parse(data, len, (int64_t)cfg.prefix_len, &f) != 0) {
		viol("C08/file-undecodable-after-refusals", "finished file does not decode: %s", data ? f.err : "unreadable");
		if (data) rd_free(&f);
	} else {
		size_t gi = 0; int bad = 0;
		for (size_t b = 0; b < f.n_blocks && !bad; b++)
			for (size_t j = 0; j < f.blocks[b].n_ents; j++, gi++) {
				const rd_ent_t *e = &f.blocks[b].ents[j];
				if (gi >= acc.n || key_cmp(e->k.p, e->k.n, acc.e[gi].k.p, acc.e[gi].k.n) != 0 || e->vlen != acc.e[gi].v.n || (e->vlen && memcmp(e->v, acc.e[gi].v.p, e->vlen) != 0)) {
					viol("C08/file-differs-from-accepted", "file entry #%zu (key %s, value %u bytes%s) is not accepted entry #%zu (%s)", gi, hexs(e->k.p, e->k.n), e->vlen, (e->vlen == strlen(REFUSED_VAL) && memcmp(e->v, REFUSED_VAL, e->vlen) == 0) ? " = value of a REFUSED add" : "", gi, wcfg_str(&cfg));
					bad = 1; break;
				}
				/* refusals adjacent to a block cut: accepted entry gi starts a block */
			}
		if (!bad && gi != acc.n) viol("C08/file-differs-from-accepted", "file holds %zu entries, %zu were accepted", gi, acc.n);
		if (f.t[T_ENTRIES] != acc.n) viol("C08/count_entries-differs-from-accepted", "trailer count_entries %" PRIu64 ", accepted %zu", f.t[T_ENTRIES], acc.n);
		stat_add("c08.blocks", f.n_blocks);
		if (f.n_blocks > 1) STAT("c08.multi_block_files");
		rd_free(&f);
	}
	unmap_file(data, len);
	struct mtbl_reader *rd = open_reader(path, &cfg);
	if (!rd) viol("C08/reader-rejects-file", "reader NULL");
	else {
		struct mtbl_iter *it = mtbl_source_iter(mtbl_reader_source(rd));
		const uint8_t *k, *v; size_t lk, lv, i = 0;
		while (mtbl_iter_next(it, &k, &lk, &v, &lv) == mtbl_res_success) {
			if (i >= acc.n || key_cmp(k, lk, acc.e[i].k.p, acc.e[i].k.n) != 0 || lv != acc.e[i].v.n || (lv && memcmp(v, acc.e[i].v.p, lv) != 0)) { viol("C08/readback-differs-from-accepted", "entry #%zu key %s differs from accepted", i, hexs(k, lk)); break; }
			i++;
		}
		if (i != acc.n) viol("C08/readback-differs-from-accepted", "read back %zu entries, accepted %zu", i, acc.n);
		mtbl_iter_destroy(&it);
		mtbl_reader_destroy(&rd);
	}
	stat_add("c08.accepted", acc.n);
	STAT("c08.sequences");
	case_hash(model_hash(&acc) ^ fnv64(&cfg, sizeof cfg, nadds));
	model_free(&acc);
	unlink(path);
}

/* ---- pre-existing targets */
typedef struct { ino_t ino; off_t size; struct timespec mt; mode_t mode; uint64_t h; } snap_t;
static void snap(const char *p, snap_t *s)
{
	struct stat st; memset(s, 0, sizeof *s);
	if (lstat(p, &st) != 0) { s->ino = 0; return; }
	s->ino = st.st_ino; s->size = st.st_size; s->mt = st.st_mtim; s->mode = st.st_mode;
	if (S_ISREG(st.st_mode)) { size_t n; uint8_t *d = read_file(p, &n); s->h = d ? fnv64(d, n, 0) : 0; free(d); }
	else if (S_ISLNK(st.st_mode)) { char b[512]; ssize_t n = readlink(p, b, sizeof b); s->h = fnv64(b, n > 0 ? n : 0, 0); }
}
static bool snap_eq(const snap_t *a, const snap_t *b) { return a->ino == b->ino && a->size == b->size && a->mt.tv_sec == b->mt.tv_sec && a->mt.tv_nsec == b->mt.tv_nsec && a->mode == b->mode && a->h == b->h; }

static void try_existing(const char *path, const char *also, const char *kind, rng_t *r)
{
	snap_t before, after, before2, after2;
	snap(path, &before); if (also) snap(also, &before2);
	wcfg_t cfg; gen_wcfg(r, &cfg); cfg.prefix_len = 0; cfg.use_fd = 0;
	struct mtbl_writer_options *wo = rndp(r, 500) ? wcfg_options(&cfg, NULL) : NULL;
	struct mtbl_writer *w = mtbl_writer_init(path, wo);
	if (wo) mtbl_writer_options_destroy(&wo);
	if (w) {
		viol("C08/init-opened-existing-path", "mtbl_writer_init on an existing %s returned a writer", kind);
		if (mtbl_writer_add(w, (const uint8_t *)"k", 1, (const uint8_t *)"v", 1)) {}
		mtbl_writer_destroy(&w);
	}
	snap(path, &after);
	if (!snap_eq(&before, &after)) viol("C08/existing-target-modified", "existing %s changed: size %ld -> %ld, inode %lu -> %lu", kind, (long)before.size, (long)after.size, (unsigned long)before.ino, (unsigned long)after.ino);
	if (also) { snap(also, &after2); if (!snap_eq(&before2, &after2)) viol("C08/existing-target-modified", "target behind the %s changed or was created (size %ld -> %ld, inode %lu -> %lu)", kind, (long)before2.size, (long)after2.size, (unsigned long)before2.ino, (unsigned long)after2.ino); }
	statf(1, "c08pre.targets.%s", kind);
}

static void case_c08pre(const args_t *a, long c, rng_t *r)
{
	char d[4096], p[4200], q[4200];
	snprintf(d, sizeof d, "%s/pre-%ld", a->workdir, c); mkdir(d, 0755);
	/* regular file with content */
	snprintf(p, sizeof p, "%s/regular", d);
	{ uint8_t b[300]; size_t n = 1 + rndn(r, 299); for (size_t i = 0; i < n; i++) b[i] = (uint8_t)rnd64(r); write_file(p, b, n); }
	try_existing(p, NULL, "regular-file", r);
	snprintf(p, sizeof p, "%s/empty", d); write_file(p, "", 0);
	try_existing(p, NULL, "empty-file", r);
	/* an existing table */
	snprintf(p, sizeof p, "%s/table.mtbl", d);
	{ wcfg_t cfg; model_t m; shape_t sh; gen_wcfg(r, &cfg); cfg.prefix_len = 0; cfg.pool = -1; gen_shape(r, &sh, cfg.block_size, 0); gen_model(r, &sh, 50, 0, &m); shape_free(&sh); write_model(p, &cfg, &m, NULL); model_free(&m); }
	try_existing(p, NULL, "existing-table", r);
	/* symlink to a file, dangling symlink, directory */
	snprintf(q, sizeof q, "%s/link", d); snprintf(p, sizeof p, "%s/regular", d);
	if (symlink(p, q) == 0) try_existing(q, p, "symlink-to-file", r);
	snprintf(q, sizeof q, "%s/dangling", d); snprintf(p, sizeof p, "%s/nonexistent-target", d);
	if (symlink(p, q) == 0) try_existing(q, p, "dangling-symlink", r);
	snprintf(p, sizeof p, "%s/subdir", d); mkdir(p, 0755);
	try_existing(p, NULL, "directory", r);
	/* control: a fresh path must work */
	snprintf(p, sizeof p, "%s/fresh.mtbl", d);
	struct mtbl_writer *w = mtbl_writer_init(p, NULL);
	if (!w) viol("C08/init-null-on-fresh-path", "mtbl_writer_init on a fresh path returned NULL"); else mtbl_writer_destroy(&w);
	STAT("c08pre.fresh_control");
	if (want_sample()) sample("c08pre: mtbl_writer_init on regular/empty/table/symlink/dangling-symlink/directory targets in %s: must return NULL, lstat+content hash unchanged", d);
	/* cleanup */
	DIR *dd = opendir(d); struct dirent *e;
	while (dd && (e = readdir(dd))) { if (e->d_name[0] == '.' && (!e->d_name[1] || e->d_name[1] == '.')) continue; snprintf(q, sizeof q, "%s/%s", d, e->d_name); if (unlink(q) != 0) rmdir(q); }
	if (dd) closedir(dd);
	rmdir(d);
}

/* ------------------------------------------------------------------ keys whose lengths differ by 2^31 and more (thorough, -O2 build): the ordering
 * gate must still order a key against its own extension / prefix by length */
static void case_c08big(const args_t *a, long c, rng_t *r)
{
	(void)a; (void)r;
	if (c % 5 == 4) {
		/* key and value each fit 32 bits, their sum does not: the entry is legal (the lengths are stored separately) */
		const uint64_t LV = (uint64_t)UINT32_MAX - 8;
		uint8_t *val = calloc(1, LV);
		if (!val) { inconclusive("cannot allocate 4 GiB"); return; }
		fflush(stdout);
		pid_t p2 = fork();
		if (p2 == 0) {
			int nfd = open("/dev/null", O_WRONLY); dup2(nfd, 2);
			struct mtbl_writer_options *wo = mtbl_writer_options_init();
			mtbl_writer_options_set_compression(wo, MTBL_COMPRESSION_NONE);
			struct mtbl_writer *w = mtbl_writer_init_fd(open("/dev/null", O_WRONLY), wo);
			if (!w) _exit(9);
			if (mtbl_writer_add(w, (const uint8_t *)"a", 1, (const uint8_t *)"v", 1) != mtbl_res_success) _exit(33);
			if (mtbl_writer_add(w, (const uint8_t *)"key-of-16-bytes.", 16, val, LV) != mtbl_res_success) _exit(34);
			if (mtbl_writer_add(w, (const uint8_t *)"key-of-16-bytes.", 16, val, 3) != mtbl_res_failure) _exit(35);
			if (mtbl_writer_add(w, (const uint8_t *)"z", 1, (const uint8_t *)"v", 1) != mtbl_res_success) _exit(36);
			mtbl_writer_destroy(&w);
			_exit(0);
		}
		int st2; waitpid(p2, &st2, 0);
		if (WIFEXITED(st2) && WEXITSTATUS(st2) == 35) viol("C08/non-increasing-key-accepted", "equal key accepted after an entry with a %" PRIu64 "-byte value", LV);
		else if (WIFEXITED(st2) && WEXITSTATUS(st2) > 32) viol("C08/increasing-key-refused", "a strictly greater key was refused (step %d): 16-byte key with a value of %" PRIu64 " bytes (key + value > UINT32_MAX, each below)", WEXITSTATUS(st2) - 32, LV);
		else if (!(WIFEXITED(st2) && WEXITSTATUS(st2) == 0)) viol("C08/abort-on-entry-near-4GiB", "writer process died with status 0x%x on a 16-byte key with a value of %" PRIu64 " bytes", st2, LV);
		free(val);
		STAT("c08big.key_plus_value_over_UINT32_MAX"); STAT("c08big.cases");
		if (want_sample()) sample("c08big: 16-byte key with a value of %" PRIu64 " bytes between two small entries, writer on /dev/null", LV);
		case_hash(LV);
		return;
	}
	const uint64_t LK = (1ULL << 31) + 1 + (uint64_t)(c / 2) * 4096;
	uint8_t *big = calloc(1, LK + 1);
	if (!big) { inconclusive("cannot allocate 2 GiB"); return; }
	int reverse = (int)(c % 2);
	fflush(stdout);
	pid_t pid = fork();
	if (pid == 0) {
		int nfd = open("/dev/null", O_WRONLY); dup2(nfd, 2);
		struct mtbl_writer_options *wo = mtbl_writer_options_init();
		mtbl_writer_options_set_compression(wo, MTBL_COMPRESSION_NONE);
		struct mtbl_writer *w = mtbl_writer_init_fd(open("/dev/null", O_WRONLY), wo);
		if (!w) _exit(9);
		int bad = 0;
		if (!reverse) {
			if (mtbl_writer_add(w, (const uint8_t *)"", 0, (const uint8_t *)"v", 1) != mtbl_res_success) bad |= 1;      /* first key */
			if (mtbl_writer_add(w, big, LK, (const uint8_t *)"v", 1) != mtbl_res_success) bad |= 2;                   /* "" < 00 x LK: must be accepted */
			if (mtbl_writer_add(w, (const uint8_t *)"", 0, (const uint8_t *)"v", 1) != mtbl_res_failure) bad |= 4;      /* proper prefix of the last key: refused */
			if (mtbl_writer_add(w, big, LK, (const uint8_t *)"v", 1) != mtbl_res_failure) bad |= 8;                   /* equal: refused */
			if (mtbl_writer_add(w, big, LK + 1, (const uint8_t *)"v", 1) != mtbl_res_success) bad |= 16;              /* one byte longer: accepted */
		} else {
			if (mtbl_writer_add(w, big, LK, (const uint8_t *)"v", 1) != mtbl_res_success) bad |= 1;
			if (mtbl_writer_add(w, big, 1, (const uint8_t *)"v", 1) != mtbl_res_failure) bad |= 4;                    /* a 1-byte prefix, 2^31 bytes shorter: refused */
			if (mtbl_writer_add(w, (const uint8_t *)"", 0, (const uint8_t *)"v", 1) != mtbl_res_failure) bad |= 4;
			if (mtbl_writer_add(w, (const uint8_t *)"\x01", 1, (const uint8_t *)"v", 1) != mtbl_res_success) bad |= 16;  /* 01 > 00 00 ...: accepted */
		}
		_exit(bad ? 32 + (bad & 31) : 0);   /* the writer is not finished: nothing of interest is left to write */
	}
	int st; waitpid(pid, &st, 0);
	if (WIFEXITED(st) && WEXITSTATUS(st) >= 32) {
		int b = WEXITSTATUS(st) - 32;
		if (b & (1 | 2 | 16)) viol("C08/increasing-key-refused", "keys of %" PRIu64 " bytes (%s order): a strictly greater key was refused (mask %d)", LK, reverse ? "long key first" : "empty key first", b);
		if (b & (4 | 8)) viol("C08/non-increasing-key-accepted", "keys of %" PRIu64 " bytes (%s order): a key that is a proper prefix of / equal to the last accepted key was accepted (mask %d)", LK, reverse ? "long key first" : "empty key first", b);
	} else if (!(WIFEXITED(st) && WEXITSTATUS(st) == 0)) viol("C08/abort-on-key-over-2GiB", "writer process died with status 0x%x while adding a key of %" PRIu64 " bytes", st, LK);
	free(big);
	statf(1, "c08big.%s", reverse ? "long-key-first" : "empty-key-first");
	STAT("c08big.cases");
	if (want_sample()) sample("c08big: keys \"\" / 00 x %" PRIu64 " / its prefixes and one-byte extension offered to a writer on /dev/null (%s)", LK, reverse ? "long key first" : "empty key first");
	case_hash(LK * 2 + reverse);
}

int main(int argc, char **argv)
{
	args_t a;
	parse_args(argc, argv, &a);
	g_allow_huge_prefix = 1;
	case_fn f = NULL;
	if (!strcmp(a.sub, "c08")) f = case_c08;
	else if (!strcmp(a.sub, "c08pre")) f = case_c08pre;
	else if (!strcmp(a.sub, "c08big")) f = case_c08big;
	else return 98;
	return run_cases(&a, f);
}
