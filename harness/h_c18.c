/* C18: destroying all objects releases every descriptor, mapping, temp file and allocation.
 * A stateful history generator drives writers, readers, iterators of every kind, mergers, sorters
 * (1..n chunks, pooled or not), filesets + dups and thread pools, destroying objects at every point
 * of their life cycle; every history ends with all objects destroyed in a random order consistent
 * with the dependency graph.  Around each history: /proc/self/fd, file-backed lines of
 * /proc/self/maps, /proc/self/task, directory listings, LeakSanitizer, and the allocator's live-byte
 * counter over repeated identical histories (a per-history leak grows linearly; warm-up does not).
 */
#include "family.h"
#include <dirent.h>
#include <pthread.h>
#include <sys/mman.h>
#include <sys/time.h>
#include <time.h>

#if defined(__SANITIZE_ADDRESS__)
size_t __sanitizer_get_current_allocated_bytes(void);
int __lsan_do_recoverable_leak_check(void);
static size_t live_bytes(void) { return __sanitizer_get_current_allocated_bytes(); }
static int lsan_check(void) { return __lsan_do_recoverable_leak_check(); }
#else
#include <malloc.h>
static size_t live_bytes(void) { struct mallinfo2 mi = mallinfo2(); return mi.uordblks + mi.hblkhd; }
static int lsan_check(void) { return 0; }
#endif

/* mmap of a reader can be made to fail once (ld --wrap=mmap): the error path must release everything */
void *__real_mmap(void *, size_t, int, int, int, off_t);
static __thread int g_fail_mmap;   /* per thread: the fault is meant for the mtbl_reader_init call of the arming thread, not for a chunk job that happens to run on a pool worker at that moment */
void *__wrap_mmap(void *addr, size_t len, int prot, int flags, int fd, off_t off)
{
	if (g_fail_mmap && fd >= 0) { g_fail_mmap = 0; errno = ENOMEM; return MAP_FAILED; }
	return __real_mmap(addr, len, prot, flags, fd, off);
}

/* fopen of the setfile can be made to fail once (ld --wrap=fopen; the process is out of descriptors, EMFILE): the reload that hits it must keep nothing */
FILE *__real_fopen(const char *, const char *);
static __thread const char *g_fail_fopen_path;
FILE *__wrap_fopen(const char *path, const char *mode)
{
	if (g_fail_fopen_path && strcmp(path, g_fail_fopen_path) == 0) { g_fail_fopen_path = NULL; STAT("ops.fileset.setfile_fopen_failed"); errno = EMFILE; return NULL; }
	return __real_fopen(path, mode);
}

/* ------------------------------------------------------------------ process snapshots */
typedef struct { char fds[4096]; char maps[16384]; int nthreads; } snap_t;

static void snap_fds(char *out, size_t cap)
{
	DIR *d = opendir("/proc/self/fd"); struct dirent *e; size_t o = 0; int dfd = dirfd(d);
	int nums[512], n = 0;
	while ((e = readdir(d))) { if (e->d_name[0] == '.') continue; int f = atoi(e->d_name); if (f != dfd && n < 512) nums[n++] = f; }
	closedir(d);
	for (int i = 0; i < n; i++) for (int j = i + 1; j < n; j++) if (nums[j] < nums[i]) { int t = nums[i]; nums[i] = nums[j]; nums[j] = t; }
	out[0] = 0;
	for (int i = 0; i < n; i++) {
		char p[64], t[256]; snprintf(p, sizeof p, "/proc/self/fd/%d", nums[i]);
		ssize_t l = readlink(p, t, sizeof t - 1); if (l < 0) l = 0; t[l] = 0;
		o += snprintf(out + o, cap - o, "%d->%s;", nums[i], t);
		if (o >= cap - 300) break;
	}
}
static void snap_maps(char *out, size_t cap)
{
	FILE *f = fopen("/proc/self/maps", "r"); char line[1024]; size_t o = 0; out[0] = 0;
	while (f && fgets(line, sizeof line, f)) {
		char *path = strchr(line, '/');
		if (!path) continue;                                   /* anonymous, [heap], [stack], thread stacks: ignored by construction */
		if (strstr(path, ".so") || strstr(path, "/h_c18") || strstr(path, "/locale") || strstr(path, "/gconv")) continue; /* the process image and libraries */
		path[strcspn(path, "\n")] = 0;
		if (o + strlen(path) + 2 < cap) o += snprintf(out + o, cap - o, "%s;", path);
	}
	if (f) fclose(f);
}
static int count_threads(void)
{
	DIR *d = opendir("/proc/self/task"); struct dirent *e; int n = 0;
	while ((e = readdir(d))) if (e->d_name[0] != '.') n++;
	closedir(d);
	return n;
}
/* a joined thread can stay visible in /proc/self/task for a moment: wait until the count has settled */
static int settled_threads(void)
{
	int n = count_threads();
	for (int t = 0; t < 100; t++) {
		struct timespec ts = {0, 2000000}; nanosleep(&ts, NULL);
		int m = count_threads();
		if (m == n && (n == 1 || t >= 3)) break;
		n = m;
	}
	return n;
}
static void take_snap(snap_t *s) { snap_fds(s->fds, sizeof s->fds); snap_maps(s->maps, sizeof s->maps); s->nthreads = settled_threads(); }

static size_t list_dir(const char *d, char *out, size_t cap)
{
	DIR *dd = opendir(d); struct dirent *e; size_t n = 0, o = 0; out[0] = 0;
	if (!dd) return 0;
	while ((e = readdir(dd))) if (strcmp(e->d_name, ".") && strcmp(e->d_name, "..")) { n++; if (o + strlen(e->d_name) + 2 < cap) o += snprintf(out + o, cap - o, "%s ", e->d_name); }
	closedir(dd);
	return n;
}

/* ------------------------------------------------------------------ object table */
enum { T_POOL, T_WRITER, T_READER, T_MERGER, T_SORTER, T_FILESET, T_ITER, T_USOURCE, T_NTYPES };
static const char *TNAME[] = {"pool", "writer", "reader", "merger", "sorter", "fileset", "iter", "usersource"};
/* user-defined source: its closure is heap memory that only the source_free callback releases (the library must call it exactly once, at mtbl_source_destroy) */
static uint64_t g_usrc_free_calls;
static void usrc_free_cb(void *clos) { g_usrc_free_calls++; free(clos); }
#define MAXOBJ 96
typedef struct obj {
	int type, live;
	void *p;
	int dep[MAXSRC + 2]; int ndep;      /* objects that must outlive this one */
	int users;                          /* live objects depending on this one */
	/* type-specific */
	int fd;                             /* writer: fd to close after destroy */
	char path[300];                     /* writer: output path */
	int wadds; uint8_t wlast[24]; size_t wlastn;
	int sorter_state;                   /* 0 adding, 1 iterating, 2 failed */
	int sorter_adds, sorter_chunks_est; size_t sorter_lim;
	mclos_t *mc;                        /* merger/sorter/fileset merge closure */
	const model_t *model;               /* iter: nothing checked here except crashes; C18 is about release */
	int fileset_root;                   /* index of the original handle's object (for iter counting) */
	int drained;
} obj_t;

typedef struct {
	obj_t o[MAXOBJ]; int n;
	char dir[4096], tmpd[4096];
	char tables[6][300]; int ntables; model_t tmodel[6];
	char setfile[300]; int setver;
	int nontable_lines_ever;            /* some version of the setfile named something that does not load as a table (observation O4: mtbl_fileset_partition is only called when none did) */
	char junk[300], shortf[300], badoff[300], badlen[300];   /* badoff/badlen: a valid table whose index offset / index length prefix was made too large */
	model_t universe;
	uint64_t created[T_NTYPES];
	int wn;
} hist_t;

static int obj_new(hist_t *h, int type, void *p)
{
	if (h->n >= MAXOBJ) return -1;
	obj_t *o = &h->o[h->n]; memset(o, 0, sizeof *o);
	o->type = type; o->live = 1; o->p = p; o->fd = -1; o->fileset_root = -1;
	h->created[type]++;
	return h->n++;
}
static void obj_dep(hist_t *h, int a, int on) { h->o[a].dep[h->o[a].ndep++] = on; h->o[on].users++; }
static int pick_live(hist_t *h, rng_t *r, int type)
{
	int c[MAXOBJ], n = 0;
	for (int i = 0; i < h->n; i++) if (h->o[i].live && h->o[i].type == type) c[n++] = i;
	return n ? c[rndn(r, n)] : -1;
}

static void ms_fail_or_merge(void *clos, const uint8_t *key, size_t lk, const uint8_t *v0, size_t l0, const uint8_t *v1, size_t l1, uint8_t **mv, size_t *lmv)
{
	ms_merge_cb(clos, key, lk, v0, l0, v1, l1, mv, lmv);
}

static bool part_cb(const char *fname, void *clos) { (void)clos; size_t n = strlen(fname); return n > 6 && (fname[n - 6] & 1); }   /* t<digit>.mtbl: by digit parity */

static void write_setfile(hist_t *h, rng_t *r)
{
	char tmp[400]; snprintf(tmp, sizeof tmp, "%s.tmp", h->setfile);
	FILE *f = fopen(tmp, "w");
	for (int i = 0; i < h->ntables; i++) if (rndp(r, 650)) { const char *b = strrchr(h->tables[i], '/'); if (rndp(r, 500)) fprintf(f, "%s\n", b + 1); else fprintf(f, "%s\n", h->tables[i]); }
	if (rndp(r, 200)) fprintf(f, "does-not-exist.mtbl\n");
	if (rndp(r, 200)) { const char *b = strrchr(h->junk, '/'); fprintf(f, "%s\n", b + 1); h->nontable_lines_ever = 1; }
	if (rndp(r, 200)) { const char *b = strrchr(rndp(r, 500) ? h->badlen : h->badoff, '/'); fprintf(f, "%s\n", b + 1); STAT("setfile.names_table_with_forged_index_extent"); h->nontable_lines_ever = 1; }
	if (rndp(r, 200)) { fprintf(f, "\n"); h->nontable_lines_ever = 1; }         /* blank line: resolves to the directory itself */
	fclose(f);
	h->setver++;
	struct timespec ts[2] = {{2000000 + h->setver, 0}, {2000000 + h->setver, 0}};
	utimensat(AT_FDCWD, tmp, ts, 0);
	rename(tmp, h->setfile);
}

static const char *lifecycle[64]; static int nlife;
static void life(const char *s) { STAT(s); (void)lifecycle; (void)nlife; }

/* destroy object i (its users must be gone) */
static void obj_destroy(hist_t *h, int i)
{
	obj_t *o = &h->o[i];
	if (!o->live) return;
	switch (o->type) {
	case T_POOL: { struct mtbl_threadpool *p = o->p; mtbl_threadpool_destroy(&p); break; }
	case T_WRITER: { struct mtbl_writer *w = o->p; mtbl_writer_destroy(&w); if (o->fd >= 0) close(o->fd); life(o->wadds ? "life.writer.destroyed_with_entries" : "life.writer.destroyed_empty"); break; }
	case T_READER: { struct mtbl_reader *rd = o->p; mtbl_reader_destroy(&rd); break; }
	case T_MERGER: { struct mtbl_merger *m = o->p; mtbl_merger_destroy(&m); free(o->mc); break; }
	case T_SORTER: { struct mtbl_sorter *s = o->p;
		life(o->sorter_state == 0 ? (o->sorter_adds ? "life.sorter.destroyed_before_iterating" : "life.sorter.destroyed_unused") : o->sorter_state == 1 ? "life.sorter.destroyed_after_iteration" : "life.sorter.destroyed_after_reported_failure");
		mtbl_sorter_destroy(&s); free(o->mc); break; }
	case T_FILESET: { struct mtbl_fileset *f = o->p; mtbl_fileset_destroy(&f); free(o->mc); break; }
	case T_USOURCE: { struct mtbl_source *us = o->p; uint64_t before = g_usrc_free_calls; mtbl_source_destroy(&us); statf(1, "life.usersource.free_callback_calls_at_destroy.%d", (int)(g_usrc_free_calls - before)); break; }
	case T_ITER: { struct mtbl_iter *it = o->p; life(o->drained == 2 ? "life.iter.destroyed_drained" : o->drained == 1 ? "life.iter.destroyed_half_drained" : "life.iter.destroyed_untouched"); mtbl_iter_destroy(&it); break; }
	}
	o->live = 0;
	for (int d = 0; d < o->ndep; d++) h->o[o->dep[d]].users--;
}

static void add_iter(hist_t *h, rng_t *r, const struct mtbl_source *src, int owner, const model_t *m)
{
	struct mtbl_iter *it;
	const uint8_t *a = (const uint8_t *)"", *b = (const uint8_t *)"\xff"; size_t la = 0, lb = 1;
	if (m && m->n) { const ent_t *e = &m->e[rndn(r, m->n)], *f = &m->e[rndn(r, m->n)]; a = e->k.p; la = e->k.n; b = f->k.p; lb = f->k.n; }
	int kind = rndn(r, 5);
	switch (kind) {
	case 0: case 4: it = mtbl_source_iter(src); break;
	case 1: it = mtbl_source_get(src, a, la); break;
	case 2: it = mtbl_source_get_prefix(src, a, la ? rndn(r, la + 1) : 0); break;
	default: it = mtbl_source_get_range(src, a, la, b, lb); break;
	}
	statf(1, "ops.iter_open.%s.on_%s", IK_NAME[kind == 4 ? 0 : kind], TNAME[h->o[owner].type]);
	if (!it) { STAT("ops.iter_open.returned_null"); return; }
	int i = obj_new(h, T_ITER, it);
	if (i < 0) { mtbl_iter_destroy(&it); return; }
	obj_dep(h, i, owner);
	h->o[i].model = m;
}

static void step(hist_t *h, rng_t *r, int thorough)
{
	int op = rndn(r, 100);
	if (rndn(r, 25) == 0) {
		/* stand-alone codec calls, also on damaged input: a reported failure must not keep the output buffer (snappy, lz4, lz4hc, zstd; the zlib wrapper
		   stops the process on a damaged stream, which is not a release question) */
		static const mtbl_compression_type ALGS[] = {MTBL_COMPRESSION_SNAPPY, MTBL_COMPRESSION_LZ4, MTBL_COMPRESSION_LZ4HC, MTBL_COMPRESSION_ZSTD};
		mtbl_compression_type alg = ALGS[rndn(r, 4)];
		uint8_t in[3000]; size_t n = 1 + rndn(r, sizeof in - 1);
		for (size_t i = 0; i < n; i++) in[i] = rndn(r, 4) ? (uint8_t)('a' + i % 5) : (uint8_t)rnd64(r);
		uint8_t *cz = NULL, *back = NULL; size_t cn = 0, bn = 0;
		if (mtbl_compress(alg, in, n, &cz, &cn) == mtbl_res_success) {
			/* the first 16 bytes (where every format keeps the decompressed size) stay intact: a damaged size field makes the library ask for
			   gigabytes and stop on the failed allocation, which is not a release question */
			int damage = cn > 24 ? (int)rndn(r, 4) : 0;
			if (damage == 1) cn = 17 + rndn(r, (uint32_t)cn - 17);                               /* truncated */
			else if (damage == 2) for (int q = 0; q < 3; q++) cz[16 + rndn(r, (uint32_t)cn - 16)] ^= (uint8_t)(1u << rndn(r, 8));
			else if (damage == 3) for (size_t i = 16; i < cn; i++) cz[i] = (uint8_t)rnd64(r);
			mtbl_res res = mtbl_decompress(alg, cz, cn, &back, &bn);
			statf(1, "ops.codec.decompress.%s.%s", damage ? "damaged" : "intact", res == mtbl_res_success ? "success" : "failure");
			if (res == mtbl_res_success) free(back);
			free(cz);
		}
		return;
	}
	if (op < 5) {                                               /* pool */
		struct mtbl_threadpool *p = mtbl_threadpool_init(rndn(r, 5));
		obj_new(h, T_POOL, p);
	} else if (op < 14) {                                       /* writer */
		wcfg_t cfg; gen_wcfg(r, &cfg); cfg.pool = -1; if (cfg.comp == 5 && cfg.level > 12) cfg.level = 3;
		int pi = rndp(r, 400) ? pick_live(h, r, T_POOL) : -1;
		char path[300]; snprintf(path, sizeof path, "%s/w%d.mtbl", h->dir, h->wn++ % 40);
		unlink(path);
		int fd; struct mtbl_writer *w = open_writer(path, &cfg, pi >= 0 ? h->o[pi].p : NULL, &fd);
		if (!w) return;
		int i = obj_new(h, T_WRITER, w);
		if (i < 0) { mtbl_writer_destroy(&w); if (fd >= 0) close(fd); unlink(path); return; }
		h->o[i].fd = fd; snprintf(h->o[i].path, sizeof h->o[i].path, "%s", path);
		if (pi >= 0) { obj_dep(h, i, pi); life("life.writer.pooled"); }
	} else if (op < 24) {                                       /* writer adds (incl. refused) */
		int i = pick_live(h, r, T_WRITER); if (i < 0) return;
		obj_t *o = &h->o[i];
		int k = 1 + rndn(r, 120);
		for (int j = 0; j < k; j++) {
			uint8_t key[24]; size_t lk = snprintf((char *)key, sizeof key, "w%07d", o->wadds * 2 + 1);
			uint8_t val[300]; size_t lv = rndn(r, 300); memset(val, 'v', lv);
			if (rndp(r, 150) && o->wlastn) { if (mtbl_writer_add(o->p, o->wlast, o->wlastn, val, lv) == mtbl_res_success) STAT("ops.writer.refused_add_accepted?"); else STAT("ops.writer.refused_add"); continue; }
			if (mtbl_writer_add(o->p, key, lk, val, lv) == mtbl_res_success) { o->wadds++; memcpy(o->wlast, key, lk); o->wlastn = lk; }
		}
	} else if (op < 32) {                                       /* reader: valid table, non-table, short file */
		int which = rndn(r, 12);
		const char *path = which < 7 ? h->tables[rndn(r, h->ntables)] : which < 9 ? h->junk : which < 10 ? h->shortf : h->dir /* a directory: open() works, mmap() fails */;
		if (which == 7 || which == 6) { path = which == 7 ? h->badlen : h->badoff; which = 8; STAT("ops.reader.forged_index_extent"); }   /* refused after the mapping exists */
		if (which == 11) { path = h->tables[rndn(r, h->ntables)]; g_fail_mmap = 1; }   /* a valid table whose mmap() fails (address-space limit) */
		struct mtbl_reader_options *ro = mtbl_reader_options_init();
		mtbl_reader_options_set_verify_checksums(ro, rndn(r, 2)); mtbl_reader_options_set_madvise_random(ro, rndn(r, 2));
		struct mtbl_reader *rd = mtbl_reader_init(path, ro);
		g_fail_mmap = 0;
		mtbl_reader_options_destroy(&ro);
		if (!rd) { STAT(which < 7 ? "ops.reader.valid_table_returned_null?" : which >= 10 ? "ops.reader.mmap_failure_returned_null" : "ops.reader.non_table_returned_null"); return; }
		int i = obj_new(h, T_READER, rd);
		if (i < 0) { mtbl_reader_destroy(&rd); return; }
		for (int t = 0; t < h->ntables; t++) if (path == h->tables[t]) h->o[i].model = &h->tmodel[t];
	} else if (op < 40) {                                       /* merger over live readers */
		struct mtbl_merger_options *mo = mtbl_merger_options_init();
		mclos_t *mc = xcalloc(1, sizeof *mc);
		int mode = rndn(r, 4);
		if (mode <= 1) mtbl_merger_options_set_merge_func(mo, ms_fail_or_merge, mc);
		if (mode == 1 && h->universe.n) { const ent_t *e = &h->universe.e[rndn(r, h->universe.n)]; mc->have_fail = 1; mc->fail_key = e->k.p; mc->fail_len = e->k.n; life("life.merger.failing_merge_callback"); }
		if (mode == 2) mtbl_merger_options_set_dupsort_func(mo, dupsort_bytes, DUPSORT_CLOS);
		struct mtbl_merger *m = mtbl_merger_init(mo);
		mtbl_merger_options_destroy(&mo);
		int i = obj_new(h, T_MERGER, m);
		if (i < 0) { mtbl_merger_destroy(&m); free(mc); return; }
		h->o[i].mc = mc;
		int k = rndn(r, 5);
		/* sometimes a user-defined source (closure owned by its free callback) is created and joins the merger as well */
		if (rndn(r, 3) == 0) {
			usrc_t *u = xcalloc(1, sizeof *u); u->m = h->tmodel[rndn(r, h->ntables)];     /* entries shared with the fixture, not owned */
			struct mtbl_source *us = mtbl_source_init(usrc_iter, usrc_get, usrc_get_prefix, usrc_get_range, usrc_free_cb, u);
			int ui = obj_new(h, T_USOURCE, us);
			if (ui < 0) mtbl_source_destroy(&us);
			else { mtbl_merger_add_source(m, us); obj_dep(h, i, ui); }
		}
		for (int j = 0; j < k; j++) { int ri = pick_live(h, r, rndn(r, 4) == 0 ? T_USOURCE : T_READER); if (ri < 0) break; int dup = 0; for (int d = 0; d < h->o[i].ndep; d++) if (h->o[i].dep[d] == ri) dup = 1; if (dup) continue; mtbl_merger_add_source(m, h->o[ri].type == T_USOURCE ? (const struct mtbl_source *)h->o[ri].p : mtbl_reader_source(h->o[ri].p)); obj_dep(h, i, ri); }
	} else if (op < 52) {                                       /* iterator on reader / merger / fileset */
		int t = rndn(r, 3) == 0 ? T_MERGER : rndn(r, 2) ? T_READER : T_FILESET;
		int oi = pick_live(h, r, t); if (oi < 0) return;
		const struct mtbl_source *src = t == T_MERGER ? mtbl_merger_source(h->o[oi].p) : t == T_READER ? mtbl_reader_source(h->o[oi].p) : mtbl_fileset_source(h->o[oi].p);
		add_iter(h, r, src, oi, t == T_READER ? h->o[oi].model : &h->universe);
	} else if (op < 66) {                                       /* advance / seek an iterator */
		int i = pick_live(h, r, T_ITER); if (i < 0) return;
		const uint8_t *k, *v; size_t lk, lv;
		int n = rndn(r, 4) == 0 ? 100000 : 1 + rndn(r, 30);
		if (rndp(r, 250) && h->universe.n) { const ent_t *e = &h->universe.e[rndn(r, h->universe.n)]; if (mtbl_iter_seek(h->o[i].p, e->k.p, e->k.n) != mtbl_res_success) STAT("ops.iter.seek_failed"); STAT("ops.iter.seek"); h->o[i].drained = 1; }
		for (int j = 0; j < n; j++) { if (mtbl_iter_next(h->o[i].p, &k, &lk, &v, &lv) != mtbl_res_success) { h->o[i].drained = 2; STAT("ops.iter.next_failure"); break; } h->o[i].drained = 1; }
	} else if (op < 73) {                                       /* sorter */
		struct mtbl_sorter_options *so = mtbl_sorter_options_init();
		mclos_t *mc = xcalloc(1, sizeof *mc);
		mtbl_sorter_options_set_temp_dir(so, h->tmpd);
		size_t lim = rndn(r, 3) == 0 ? 1 : rndn(r, 2) ? 200 + rndn(r, 3000) : 1u << 30;
		mtbl_sorter_options_set_max_memory(so, lim);
		mtbl_sorter_options_set_merge_func(so, ms_fail_or_merge, mc);
		int pi = rndp(r, 500) ? pick_live(h, r, T_POOL) : -1;
		if (pi >= 0) mtbl_sorter_options_set_threadpool(so, h->o[pi].p);
		/* failing merge callback inside a chunk: only unpooled (a pooled sorter cannot report it) */
		if (pi < 0 && rndp(r, 200) && h->universe.n) { const ent_t *e = &h->universe.e[rndn(r, h->universe.n)]; mc->have_fail = 1; mc->fail_key = e->k.p; mc->fail_len = e->k.n; }
		struct mtbl_sorter *s = mtbl_sorter_init(so);
		mtbl_sorter_options_destroy(&so);
		int i = obj_new(h, T_SORTER, s);
		if (i < 0) { mtbl_sorter_destroy(&s); free(mc); return; }
		h->o[i].mc = mc; h->o[i].sorter_lim = lim;
		if (pi >= 0) { obj_dep(h, i, pi); life("life.sorter.pooled"); }
		if (lim == 1) life("life.sorter.one_entry_per_chunk");
	} else if (op < 84) {                                       /* sorter adds */
		int i = pick_live(h, r, T_SORTER); if (i < 0) return;
		obj_t *o = &h->o[i]; if (o->sorter_state != 0 || !h->universe.n) return;
		int k = 1 + rndn(r, thorough ? 400 : 150);
		if (o->sorter_lim == 1) k = 1 + rndn(r, 12);          /* every add spills: each spill costs a 1 MiB vector under ASan */
		for (int j = 0; j < k; j++) {
			size_t ki = rndn(r, (uint32_t)h->universe.n);
			bs_t v = ids_value(1 + rndn(r, 3), (uint32_t)ki);
			mtbl_res res = mtbl_sorter_add(o->p, h->universe.e[ki].k.p, h->universe.e[ki].k.n, v.p, v.n);
			free(v.p);
			o->sorter_adds++;
			if (res != mtbl_res_success) { o->sorter_state = 2; life("life.sorter.add_reported_failure"); break; }   /* failing merge callback: reported failure, then only destroy */
		}
	} else if (op < 90) {                                       /* sorter iter / write */
		int i = pick_live(h, r, T_SORTER); if (i < 0) return;
		obj_t *o = &h->o[i];
		if (o->sorter_state == 1 && !o->mc->have_fail && rndn(r, 2)) {
			/* the sorted output is asked for once more (after an earlier iterator or sorter_write, possibly with that iterator still alive) */
			struct mtbl_iter *it2 = mtbl_sorter_iter(o->p);
			STAT(it2 ? "ops.sorter_iter.again.returned_iterator" : "ops.sorter_iter.again.returned_null");
			if (it2) { int ii2 = obj_new(h, T_ITER, it2); if (ii2 < 0) mtbl_iter_destroy(&it2); else obj_dep(h, ii2, i); }
			return;
		}
		if (o->sorter_state != 0) return;
		if (o->mc->have_fail) return;                              /* O1: iterating after a chunk-level merge failure is outside C18 */
		if (rndn(r, 3) == 0) {
			int wi = pick_live(h, r, T_WRITER);
			if (wi >= 0) {
				/* also into a writer that already holds entries: the writer may refuse the sorter's first key and sorter_write reports failure */
				int nonempty = h->o[wi].wadds != 0;
				mtbl_res wres = mtbl_sorter_write(o->p, h->o[wi].p);
				o->sorter_state = 1; h->o[wi].wadds = 1 << 20; h->o[wi].wlastn = 0;
				life(wres == mtbl_res_success ? "life.sorter.written_to_writer" : nonempty ? "life.sorter.write_refused_by_nonempty_writer" : "life.sorter.write_failed");
				return;
			}
		}
		struct mtbl_iter *it = mtbl_sorter_iter(o->p);
		o->sorter_state = 1;
		if (!it) { STAT("ops.sorter_iter.returned_null"); return; }
		int ii = obj_new(h, T_ITER, it);
		if (ii < 0) { mtbl_iter_destroy(&it); return; }
		obj_dep(h, ii, i);
	} else if (op < 96) {                                       /* fileset: init / dup / reload / rewrite setfile */
		int fi = pick_live(h, r, T_FILESET);
		int what = rndn(r, 5);
		if (fi < 0 || what == 0) {
			struct mtbl_fileset_options *fo = mtbl_fileset_options_init();
			mclos_t *mc = xcalloc(1, sizeof *mc);
			mtbl_fileset_options_set_merge_func(fo, ms_fail_or_merge, mc);
			mtbl_fileset_options_set_reload_interval(fo, rndn(r, 2) ? 0 : MTBL_FILESET_RELOAD_INTERVAL_NEVER);
			struct mtbl_fileset *f = (fi >= 0 && rndn(r, 2)) ? mtbl_fileset_dup(h->o[fi].p, fo) : mtbl_fileset_init(h->setfile, fo);
			mtbl_fileset_options_destroy(&fo);
			int i = obj_new(h, T_FILESET, f);
			if (i < 0) { mtbl_fileset_destroy(&f); free(mc); return; }
			h->o[i].mc = mc;
			life("life.fileset.created_or_dupped");
		} else if (what == 1 && rndn(r, 3) == 0) {
			/* the setfile changed, and the reload that notices cannot open it */
			write_setfile(h, r);
			g_fail_fopen_path = h->setfile;
			mtbl_fileset_reload_now(h->o[fi].p);
			g_fail_fopen_path = NULL;
			STAT("ops.fileset.reload_with_unopenable_setfile");
		} else if (what == 1) { write_setfile(h, r); STAT("ops.fileset.setfile_rewritten"); }
		else if (what == 2) { mtbl_fileset_reload(h->o[fi].p); STAT("ops.fileset.reload"); }
		else if (what == 4 && rndn(r, 2) && !h->nontable_lines_ever) {
			/* the deprecated partition call: two mergers over the fileset's readers, owned by the caller; read a little through each, destroy both at once */
			struct mtbl_merger *m1 = NULL, *m2 = NULL;
			mtbl_fileset_partition(h->o[fi].p, part_cb, NULL, &m1, &m2);
			struct mtbl_merger *mm[2] = {m1, m2};
			for (int q = 0; q < 2; q++) {
				if (!mm[q]) { STAT("ops.fileset.partition_returned_null"); continue; }
				struct mtbl_iter *it = mtbl_source_iter(mtbl_merger_source(mm[q]));
				const uint8_t *k, *v; size_t lk, lv; int n = rndn(r, 6);
				for (int j = 0; j < n && mtbl_iter_next(it, &k, &lk, &v, &lv) == mtbl_res_success; j++) {}
				mtbl_iter_destroy(&it);
				mtbl_merger_destroy(&mm[q]);
			}
			STAT("ops.fileset.partition");
		}
		else { mtbl_fileset_reload_now(h->o[fi].p); STAT("ops.fileset.reload_now"); }
	} else {                                                    /* destroy something whose users are gone */
		int c[MAXOBJ], n = 0;
		for (int i = 0; i < h->n; i++) if (h->o[i].live && h->o[i].users == 0) c[n++] = i;
		if (n) { int i = c[rndn(r, n)]; statf(1, "ops.destroy_midway.%s", TNAME[h->o[i].type]); obj_destroy(h, i); }
	}
}

/* fileset dups share reader state: a dup must be treated as depending on nothing, but iterators on any handle must be
 * closed before any handle of the family is destroyed last; the generic "users" rule (iterators depend on their handle) suffices
 * because the shared state is reference counted by the library. */

static void run_history(const args_t *a, long c, uint64_t seed_salt, hist_t *h, int rep)
{
	rng_t rr; rng_init(&rr, a->seed ^ 0xC18C18 ^ seed_salt, (uint64_t)c);
	rng_t *r = &rr;
	memset(h, 0, sizeof *h);
	g_next_id = 1;                      /* ids only need to be unique within one history; keeps repetitions allocation-identical */
	snprintf(h->dir, sizeof h->dir, "%s/h%ld", a->workdir, c); mkdir(h->dir, 0700);
	snprintf(h->tmpd, sizeof h->tmpd, "%s/h%ld/tmp", a->workdir, c); mkdir(h->tmpd, 0700);
	/* fixtures (part of the history: written with real writers, which are destroyed) */
	shape_t sh; gen_shape(r, &sh, 1024, 0); if (sh.pfx_len > 100) sh.pfx_len = 100;
	gen_model(r, &sh, 10 + rndn(r, 150), rndp(r, 300), &h->universe); shape_free(&sh);
	h->ntables = 2 + rndn(r, 4);
	for (int t = 0; t < h->ntables; t++) {
		snprintf(h->tables[t], sizeof h->tables[t], "%s/t%d.mtbl", h->dir, t);
		model_init(&h->tmodel[t]);
		for (size_t i = 0; i < h->universe.n; i++) if (rndp(r, 500)) { bs_t v = ids_value(1 + rndn(r, 20), (uint32_t)i); model_push(&h->tmodel[t], h->universe.e[i].k.p, h->universe.e[i].k.n, v.p, v.n); free(v.p); }
		wcfg_t cfg; gen_wcfg(r, &cfg); cfg.pool = -1; cfg.block_size = 1024; cfg.prefix_len = 0; cfg.use_fd = 0; if (cfg.comp == 5 && cfg.level > 12) cfg.level = 3;
		write_model(h->tables[t], &cfg, &h->tmodel[t], NULL);
	}
	snprintf(h->junk, sizeof h->junk, "%s/junk.bin", h->dir); { uint8_t b[2000]; for (size_t i = 0; i < sizeof b; i++) b[i] = (uint8_t)rnd64(r); write_file(h->junk, b, sizeof b); }
	snprintf(h->shortf, sizeof h->shortf, "%s/short.bin", h->dir); write_file(h->shortf, "short", 5);
	snprintf(h->badoff, sizeof h->badoff, "%s/badoff.mtbl", h->dir); snprintf(h->badlen, sizeof h->badlen, "%s/badlen.mtbl", h->dir);
	{ size_t len; uint8_t *b = read_file(h->tables[0], &len);
	  if (b && len >= 512 + 16) {
		uint64_t ioff; memcpy(&ioff, b + len - 512, 8);
		uint64_t big = (uint64_t)len; memcpy(b + len - 512, &big, 8); write_file(h->badoff, b, len); memcpy(b + len - 512, &ioff, 8);
		if (ioff + 5 <= len - 512) { static const uint8_t v[5] = {0xff, 0xff, 0xff, 0xff, 0x0f}; memcpy(b + ioff, v, 5); }
		write_file(h->badlen, b, len);
	  }
	  free(b); }
	snprintf(h->setfile, sizeof h->setfile, "%s/set.fileset", h->dir); write_setfile(h, r);
	int steps = 20 + rndn(r, a->thorough ? 140 : 90);
	for (int i = 0; i < steps; i++) step(h, r, a->thorough);
	/* tear everything down in a random order consistent with the dependency graph */
	for (;;) {
		int c2[MAXOBJ], n = 0, alive = 0;
		for (int i = 0; i < h->n; i++) if (h->o[i].live) { alive++; if (h->o[i].users == 0) c2[n++] = i; }
		if (!alive) break;
		if (!n) { fprintf(stderr, "harness: dependency cycle\n"); exit(99); }
		obj_destroy(h, c2[rndn(r, n)]);
	}
	if (rep == 0) { for (int t = 0; t < T_NTYPES; t++) statf(h->created[t], "objects.%s", TNAME[t]); stat_add("history.steps", steps); }
	/* remove what the history itself wrote; anything else left behind is a finding */
	for (int t = 0; t < h->ntables; t++) { unlink(h->tables[t]); model_free(&h->tmodel[t]); }
	for (int i = 0; i < 40; i++) { char p[4200]; snprintf(p, sizeof p, "%s/w%d.mtbl", h->dir, i); unlink(p); }
	unlink(h->junk); unlink(h->shortf); unlink(h->setfile); unlink(h->badoff); unlink(h->badlen);
	model_free(&h->universe);
	char lst[1024];
	size_t left = list_dir(h->tmpd, lst, sizeof lst);
	if (left && rep == 0) viol("C18/temp-files-left-behind", "%zu files left in the sorter temp dir after all objects were destroyed: %s", left, lst);
	rmdir(h->tmpd);
	left = list_dir(h->dir, lst, sizeof lst);
	if (left && rep == 0) viol("C18/files-left-behind", "%zu unexpected files left in the work dir: %s", left, lst);
	if (left) { char cmd[4300]; snprintf(cmd, sizeof cmd, "rm -rf %s", h->dir); if (system(cmd)) {} } else rmdir(h->dir);
}

static hist_t H;

static void case_c18(const args_t *a, long c, rng_t *r)
{
	(void)r;
	snap_t before, after;
	take_snap(&before);
	size_t lb[4];
	for (int rep = 0; rep < 3; rep++) {
		run_history(a, c, 0, &H, rep);
		lb[rep] = live_bytes();
		if (rep == 0) {
			/* (1) descriptors, file-backed mappings, threads */
			take_snap(&after);
			for (int t = 0; t < 40 && after.nthreads > before.nthreads; t++) { struct timespec ts = {0, 5000000}; nanosleep(&ts, NULL); after.nthreads = count_threads(); }
			if (strcmp(before.fds, after.fds) != 0) viol("C18/descriptor-leak", "open descriptors differ after the history: before [%s] after [%s]", before.fds, after.fds);
			if (strcmp(before.maps, after.maps) != 0) viol("C18/mapping-leak", "file-backed mappings differ after the history: before [%.300s] after [%.600s]", before.maps, after.maps);
			if (after.nthreads > before.nthreads) viol("C18/thread-leak", "%d threads alive after the history, %d before (a live thread pins its heap allocations)", after.nthreads, before.nthreads);
			STAT("checks.fd_map_thread_snapshots");
			/* (2) unreachable heap blocks: leaks persist, so the (expensive, stop-the-world) check runs every 8th history and at the end of the process */
			if (c % 8 == 7 || c == a->start + a->count - 1) {
				if (lsan_check()) viol("C18/heap-leak-lsan", "LeakSanitizer reports leaked allocations after all objects of histories %ld..%ld were destroyed", c - c % 8 < a->start ? a->start : c - c % 8, c);
				STAT("checks.lsan");
			}
		}
	}
	/* (3) reachable-or-not heap growth: identical histories must reach a steady state */
	if (lb[2] != lb[1]) {
		/* one more repetition decides between allocator warm-up and a per-history leak */
		run_history(a, c, 0, &H, 3); lb[3] = live_bytes();
		if (lb[3] > lb[2] && lb[2] > lb[1]) viol("C18/heap-growth-per-history", "live heap bytes after identical histories: %zu, %zu, %zu, %zu (grows every repetition)", lb[0], lb[1], lb[2], lb[3]);
		else STAT("checks.heap_steady_after_extra_repetition");
	} else STAT("checks.heap_steady_state");
	STAT("histories");
	if (want_sample()) sample("c18: history %ld: fixtures (tables, setfile, non-table files) + random steps over pools/writers/readers/mergers/iterators/sorters/filesets, then teardown in a random dependency-consistent order; repeated 3x", c);
	case_hash((uint64_t)c * 0x9e3779b97f4a7c15ULL ^ a->seed);
}

int main(int argc, char **argv)
{
	args_t a;
	parse_args(argc, argv, &a);
	if (strcmp(a.sub, "c18")) return 98;
	g_id_cap = 1u << 22; g_id_key = xcalloc(g_id_cap, sizeof(uint32_t));   /* never grows during a history */
	/* warm up lazily initialised process state (stdio buffers, locale, first thread stack) outside the measured histories */
	{ pthread_t t; pthread_create(&t, NULL, (void *(*)(void *))count_threads, NULL); pthread_join(t, NULL); }
	return run_cases(&a, case_c18);
}
