/* C20: writer output must not depend on how write(2) fragments the I/O.
 * The library's calls to write() are redirected (ld --wrap=write) to a scripted fault plan.
 *   single  per small table: every write call index x {partial(1), partial(n-1), partial(n/2), EINTRx1, EINTRx3}
 *           compared byte-for-byte with the all-full reference; every call index x hard error in a forked child
 *   multi   seeded multi-fault plans (p in {0.1,0.5,0.9}, "every write returns 1 byte") on small/medium, pooled/unpooled
 */
#include "gen.h"
#include <pthread.h>

ssize_t __real_write(int fd, const void *buf, size_t n);

enum { O_FULL, O_PARTIAL, O_EINTR, O_HARD, O_ZERO };
typedef struct { int kind; size_t n; int k; int err; } outcome_t;

static pthread_mutex_t plan_mu = PTHREAD_MUTEX_INITIALIZER;
static int plan_active;
static outcome_t *plan; static size_t plan_len;         /* explicit outcomes for the first plan_len calls */
static int plan_random_permille; static rng_t plan_rng; static int plan_one_byte;
static size_t call_idx;                                  /* index of the library-level write call (a retry after EINTR/partial counts as a new call) */
static size_t *call_sizes; static size_t ncalls_cap;
static int pending_eintr;
static uint64_t n_partial, n_eintr, max_fragments_cur, max_fragments;

static int big_mode;
ssize_t big_write_hook(int fd, const void *buf, size_t n);
ssize_t __wrap_write(int fd, const void *buf, size_t n)
{
	if (big_mode) return big_write_hook(fd, buf, n);
	if (!plan_active) return __real_write(fd, buf, n);
	pthread_mutex_lock(&plan_mu);
	size_t i = call_idx++;
	if (i >= ncalls_cap) { ncalls_cap = ncalls_cap ? ncalls_cap * 2 : 256; call_sizes = xrealloc(call_sizes, ncalls_cap * sizeof(size_t)); }
	call_sizes[i] = n;
	outcome_t o = {O_FULL, 0, 0, 0};
	if (pending_eintr > 0) { pending_eintr--; o.kind = O_EINTR; o.k = 0; }
	else if (i < plan_len) o = plan[i];
	else if (plan_one_byte) { o.kind = n > 1 ? O_PARTIAL : O_FULL; o.n = 1; }
	else if (plan_random_permille && rndn(&plan_rng, 1000) < (unsigned)plan_random_permille) {
		if (rndn(&plan_rng, 3) == 0) { o.kind = O_EINTR; o.k = 1 + rndn(&plan_rng, 3); }
		else if (n > 1) { o.kind = O_PARTIAL; o.n = 1 + rndn(&plan_rng, (uint32_t)(n - 1 > 1u << 20 ? 1u << 20 : n - 1)); }
	}
	ssize_t ret;
	switch (o.kind) {
	case O_PARTIAL:
		if (o.n >= n || o.n == 0) { ret = __real_write(fd, buf, n); break; }
		ret = __real_write(fd, buf, o.n);       /* really writes only o.n bytes */
		n_partial++;
		break;
	case O_EINTR:
		if (o.k > 1) pending_eintr = o.k - 1;
		n_eintr++;
		errno = EINTR; ret = -1; break;
	case O_HARD: errno = o.err; ret = -1; break;
	case O_ZERO: ret = 0; break;
	default: ret = __real_write(fd, buf, n);
	}
	pthread_mutex_unlock(&plan_mu);
	return ret;
}

static void plan_reset(void)
{
	free(plan); plan = NULL; plan_len = 0; plan_random_permille = 0; plan_one_byte = 0; call_idx = 0; pending_eintr = 0;
}

/* write model with cfg under the current plan; returns file bytes */
static uint8_t *run_writer(const char *path, const wcfg_t *cfg, const model_t *m, size_t *len)
{
	struct mtbl_threadpool *pool = wcfg_pool(cfg);
	int fd; unlink(path);
	struct mtbl_writer *w = open_writer(path, cfg, pool, &fd);   /* foreign prefix written with pwrite: not part of the plan */
	call_idx = 0; pending_eintr = 0;
	plan_active = 1;
	for (size_t i = 0; i < m->n; i++) if (mtbl_writer_add(w, m->e[i].k.p, m->e[i].k.n, m->e[i].v.p, m->e[i].v.n) != mtbl_res_success) { plan_active = 0; inconclusive("add refused"); plan_active = 1; }
	mtbl_writer_destroy(&w);
	plan_active = 0;
	if (fd >= 0) close(fd);
	if (pool) mtbl_threadpool_destroy(&pool);
	return read_file(path, len);
}

static void small_table(rng_t *r, long c, wcfg_t *cfg, model_t *m, int medium)
{
	memset(cfg, 0, sizeof *cfg);
	cfg->comp = rndn(r, 6); cfg->level = LEVEL_DEFAULT; cfg->block_size = 1024; cfg->restart = 1 + rndn(r, 16);
	cfg->pool = (c % 2) ? (int)rndn(r, 4) : -1;
	cfg->prefix_len = (c % 3 == 2) ? 13 : 0; cfg->use_fd = cfg->prefix_len > 0;
	model_init(m);
	size_t n = medium ? 200 + rndn(r, 2000) : 24 + rndn(r, 16);
	for (size_t i = 0; i < n; i++) {
		uint8_t k[24]; size_t lk = snprintf((char *)k, sizeof k, "key%06zu", i);
		size_t lv = medium ? rndn(r, 400) : 150 + rndn(r, 100);
		uint8_t v[400]; for (size_t j = 0; j < lv; j++) v[j] = (uint8_t)rnd64(r);
		if (!medium && i == 7 && c % 4 == 0) { uint8_t big[3000]; memset(big, 'B', sizeof big); model_push(m, k, lk, big, sizeof big); continue; }
		model_push(m, k, lk, v, lv);
	}
}

static const char *site_of(size_t i, size_t total, const size_t *sizes)
{
	if (i + 1 == total && sizes[i] == 512) return "trailer";
	if (i + 4 >= total) { size_t pos = (i + 4 - total); return pos == 0 ? "index-length-prefix" : pos == 1 ? "index-crc" : "index-payload"; }
	switch (i % 3) { case 0: return "length-prefix"; case 1: return "crc"; default: return "payload"; }
}

static void compare_with_ref(const uint8_t *ref, size_t rl, const uint8_t *got, size_t gl, const char *what, const wcfg_t *cfg)
{
	if (!got) { viol("C20/file-unreadable", "%s: output file missing", what); return; }
	if (gl != rl || memcmp(ref, got, rl) != 0) {
		size_t d = 0; while (d < rl && d < gl && ref[d] == got[d]) d++;
		viol("C20/output-depends-on-write-fragmentation", "%s: file is %zu bytes (reference %zu), first difference at offset %zu (%s)", what, gl, rl, d, wcfg_str(cfg));
	}
}

static void case_single(const args_t *a, long c, rng_t *r)
{
	wcfg_t cfg; model_t m; char path[4096], what[200];
	small_table(r, c, &cfg, &m, 0);
	snprintf(path, sizeof path, "%s/c20s-%ld.mtbl", a->workdir, c);
	plan_reset();
	size_t rl; uint8_t *ref = run_writer(path, &cfg, &m, &rl);
	size_t N = call_idx;
	size_t *sizes = xmalloc(N * sizeof(size_t)); memcpy(sizes, call_sizes, N * sizeof(size_t));
	if (!ref || N < 8) { inconclusive("reference run produced %zu writes", N); free(ref); free(sizes); model_free(&m); return; }
	if (want_sample()) sample("single: table of %zu entries (%s): %zu write(2) calls in the reference run; plan = one fault at call i, for every i and every fault kind; e.g. sizes of first calls %zu,%zu,%zu", m.n, wcfg_str(&cfg), N, sizes[0], sizes[1], sizes[2]);
	for (size_t i = 0; i < N; i++) {
		for (int kind = 0; kind < 7; kind++) {
			outcome_t o = {O_FULL, 0, 0, 0};
			const char *kn;
			if (kind >= 5 && (i % 5) != (size_t)(c % 5)) continue;       /* the long runs at a fifth of the call sites */
			switch (kind) {
			case 5: o.kind = O_EINTR; o.k = 500; kn = "EINTRx500"; break;
			case 6: o.kind = O_EINTR; o.k = 70; kn = "EINTRx70+partial(1)+EINTRx70"; break;
			case 0: o.kind = O_PARTIAL; o.n = 1; kn = "partial(1)"; break;
			case 1: o.kind = O_PARTIAL; o.n = sizes[i] - 1; kn = "partial(n-1)"; break;
			case 2: o.kind = O_PARTIAL; o.n = sizes[i] / 2; kn = "partial(n/2)"; break;
			case 3: o.kind = O_EINTR; o.k = 1; kn = "EINTRx1"; break;
			default: o.kind = O_EINTR; o.k = 3; kn = "EINTRx3"; break;
			}
			if (o.kind == O_PARTIAL && (sizes[i] < 2 || o.n == 0 || o.n >= sizes[i])) continue;
			if (kind == 2 && (o.n == 1 || o.n == sizes[i] - 1)) continue;
			plan_reset();
			if (kind == 6) {
				/* 70 interruptions, one byte of progress, 70 more interruptions: all while the same buffer is being written */
				plan = xcalloc(i + 142, sizeof(outcome_t)); plan_len = i + 142;
				for (int q = 0; q < 70; q++) { plan[i + q].kind = O_EINTR; plan[i + q].k = 1; plan[i + 71 + q].kind = O_EINTR; plan[i + 71 + q].k = 1; }
				plan[i + 70].kind = O_PARTIAL; plan[i + 70].n = 1;
			} else { plan = xcalloc(i + 1, sizeof(outcome_t)); plan_len = i + 1; plan[i] = o; }
			size_t gl; uint8_t *got = run_writer(path, &cfg, &m, &gl);
			snprintf(what, sizeof what, "%s at write call #%zu (%s, %zu bytes)", kn, i, site_of(i, N, sizes), sizes[i]);
			compare_with_ref(ref, rl, got, gl, what, &cfg);
			free(got);
			statf(1, "single.%s.%s", site_of(i, N, sizes), kn);
			STAT("plans");
		}
		/* hard errors: the process must stop loudly; mtbl_writer_destroy must not return */
		static const int errs[] = {EIO, ENOSPC, EBADF, 0 /* write returns 0 */, -ENOSPC /* one byte of progress, then ENOSPC on the retry */, -EIO};
		for (int e = 0; e < 6; e++) {
			if (!a->thorough && e >= 2 && e < 4 && (i % 4) != (size_t)(c % 4)) continue;
			if (e >= 4 && sizes[i] < 2) continue;
			char errp[4200]; snprintf(errp, sizeof errp, "%s.err", path);
			fflush(stdout);
			pid_t pid = fork();
			if (pid == 0) {
				int efd = open(errp, O_WRONLY | O_CREAT | O_TRUNC, 0644); dup2(efd, 2);
				int nfd = open("/dev/null", O_WRONLY); dup2(nfd, 1);
				plan_reset();
				plan = xcalloc(i + 2, sizeof(outcome_t)); plan_len = i + 2;
				if (errs[e] < 0) { plan[i].kind = O_PARTIAL; plan[i].n = 1; plan[i + 1].kind = O_HARD; plan[i + 1].err = -errs[e]; }   /* a filling disk: short write, then the error */
				else { plan[i].kind = errs[e] ? O_HARD : O_ZERO; plan[i].err = errs[e]; plan_len = i + 1; }
				/* persistent failure from call i on, so a retry cannot paper over it */
				size_t gl; uint8_t *got = run_writer(path, &cfg, &m, &gl);
				(void)got;
				_exit(42);    /* destroy returned: "finished" */
			}
			int st = 0; waitpid(pid, &st, 0);
			size_t el = 0; uint8_t *eb = read_file(errp, &el);
			snprintf(what, sizeof what, "%s %s at write call #%zu (%s)", errs[e] < 0 ? "short write of 1 byte followed by hard error" : "hard error", errs[e] ? strerror(errs[e] < 0 ? -errs[e] : errs[e]) : "(write returned 0)", i, site_of(i, N, sizes));
			if (errs[e] < 0) STAT("hard.after_short_write");
			if (WIFEXITED(st) && WEXITSTATUS(st) == 42) {
				/* the writer returned normally: is the file at least identical (error absorbed by a retry)?  A one-shot error that is
				   silently retried still violates "never reported as success" only if the error was swallowed: it was. */
				viol("C20/hard-error-reported-as-success", "%s: mtbl_writer_destroy returned normally", what);
			} else if (WIFEXITED(st) && WEXITSTATUS(st) == 0) viol("C20/hard-error-exit-0", "%s: process exited 0", what);
			else {
				STAT("hard.stopped");
				if (WIFSIGNALED(st) && WTERMSIG(st) == SIGABRT) STAT("hard.stopped_by_SIGABRT");
				if (el == 0) viol("C20/hard-error-silent-stop", "%s: process stopped without any message on stderr", what);
				else if (eb && strstr((char *)eb, "write() failed")) STAT("hard.message_write_failed");
			}
			free(eb); unlink(errp);
			statf(1, "single.%s.hard", site_of(i, N, sizes));
			STAT("plans");
		}
	}
	STAT("single.tables");
	stat_add("single.write_calls_enumerated", N);
	case_hash(model_hash(&m) ^ fnv64(&cfg, sizeof cfg, 0));
	free(ref); free(sizes); unlink(path);
	model_free(&m);
}

static void case_multi(const args_t *a, long c, rng_t *r)
{
	(void)a;
	wcfg_t cfg; model_t m; char path[4096], what[200];
	small_table(r, c, &cfg, &m, c % 3 == 0);
	snprintf(path, sizeof path, "%s/c20m-%ld.mtbl", a->workdir, c);
	plan_reset();
	size_t rl; uint8_t *ref = run_writer(path, &cfg, &m, &rl);
	size_t N = call_idx;
	static const int P[] = {100, 500, 900};
	for (int rep = 0; rep < 4; rep++) {
		plan_reset();
		if (rep == 3) { plan_one_byte = 1; snprintf(what, sizeof what, "every write returns 1 byte"); }
		else { plan_random_permille = P[rep]; rng_init(&plan_rng, rnd64(r), rep); snprintf(what, sizeof what, "random faults p=0.%d", P[rep] / 100); }
		n_partial = n_eintr = 0;
		size_t gl; uint8_t *got = run_writer(path, &cfg, &m, &gl);
		compare_with_ref(ref, rl, got, gl, what, &cfg);
		free(got);
		stat_add("multi.partial_writes", n_partial); stat_add("multi.eintr", n_eintr);
		stat_max("max.write_calls_in_one_run", call_idx);
		statf(1, "multi.plans.%s", rep == 3 ? "one-byte" : rep == 0 ? "p0.1" : rep == 1 ? "p0.5" : "p0.9");
		if (cfg.pool > 0) STAT("multi.plans_pooled");
		STAT("plans");
	}
	if (want_sample()) sample("multi: %zu entries (%s), %zu reference writes; plans: p=0.1/0.5/0.9 random {partial(n),EINTRxk} per call and 'every write returns 1 byte'", m.n, wcfg_str(&cfg), N);
	case_hash(model_hash(&m) ^ fnv64(&cfg, sizeof cfg, 1));
	free(ref); unlink(path);
	model_free(&m);
}

/* ---- one write(2) request larger than 2^31 bytes, answered with a short write of exactly 2^31 bytes (legal: "partial of any
 * length >= 1").  Linux itself never transfers more than 0x7ffff000 bytes per call, so the shim fulfils the 2^31 bytes with several
 * real writes and then reports them as one.  Needs ~4.5 GiB of disk and ~4 GiB of memory: thorough tier, -O2 build. */
static ssize_t real_write_fully(int fd, const uint8_t *p, size_t n)
{
	size_t done = 0;
	while (done < n) { ssize_t w = __real_write(fd, p + done, n - done); if (w < 0 && errno == EINTR) continue; if (w <= 0) return -1; done += (size_t)w; }
	return (ssize_t)done;
}
/* big_mode (declared above) 1: pass through completely (reference); 2: answer the first request > 2^31 with exactly 2^31 */
static int big_fired;
ssize_t big_write_hook(int fd, const void *buf, size_t n)
{
	if (big_mode == 2 && !big_fired && n > (1ULL << 31)) { big_fired = 1; return real_write_fully(fd, buf, 1ULL << 31); }
	return real_write_fully(fd, buf, n);
}
static void case_bigwrite(const args_t *a, long c, rng_t *r)
{
	(void)r;
	char p1[4096], p2[4096];
	snprintf(p1, sizeof p1, "%s/c20big-ref-%ld.mtbl", a->workdir, c); snprintf(p2, sizeof p2, "%s/c20big-out-%ld.mtbl", a->workdir, c);
	size_t lv = (1ULL << 31) + 8192 + (size_t)c * 4096;
	uint8_t *val = calloc(1, lv);
	if (!val) { inconclusive("cannot allocate %zu bytes", lv); return; }
	val[0] = 1; val[lv / 2] = 2; val[lv - 1] = 3;
	for (int mode = 1; mode <= 2; mode++) {
		const char *path = mode == 1 ? p1 : p2;
		unlink(path);
		struct mtbl_writer_options *wo = mtbl_writer_options_init();
		mtbl_writer_options_set_compression(wo, MTBL_COMPRESSION_NONE);
		struct mtbl_writer *w = mtbl_writer_init(path, wo);
		mtbl_writer_options_destroy(&wo);
		big_mode = mode; big_fired = 0;
		if (mtbl_writer_add(w, (const uint8_t *)"a", 1, (const uint8_t *)"small", 5) != mtbl_res_success) inconclusive("add refused");
		if (mtbl_writer_add(w, (const uint8_t *)"big", 3, val, lv) != mtbl_res_success) inconclusive("add refused");
		if (mtbl_writer_add(w, (const uint8_t *)"z", 1, (const uint8_t *)"tail", 4) != mtbl_res_success) inconclusive("add refused");
		mtbl_writer_destroy(&w);
		big_mode = 0;
		if (mode == 2 && !big_fired) inconclusive("no write request above 2^31 bytes was seen");
	}
	free(val);
	size_t l1, l2; uint8_t *m1 = map_file(p1, &l1), *m2 = map_file(p2, &l2);
	if (!m1 || !m2) inconclusive("cannot map outputs");
	else if (l1 != l2 || memcmp(m1, m2, l1) != 0) {
		size_t d = 0; while (d < l1 && d < l2 && m1[d] == m2[d]) d++;
		viol("C20/output-depends-on-write-fragmentation", "short write of exactly 2^31 bytes on a %zu-byte request: file is %zu bytes (reference %zu), first difference at %zu", lv + 9, l2, l1, d);
	}
	unmap_file(m1, l1); unmap_file(m2, l2);
	unlink(p1); unlink(p2);
	STAT("bigwrite.cases"); STAT("plans");
	if (want_sample()) sample("bigwrite: one value of %zu bytes, uncompressed: the payload write(2) request exceeds 2^31 bytes and is answered with a short write of exactly 2^31", lv);
	case_hash(lv);
}

int main(int argc, char **argv)
{
	args_t a;
	parse_args(argc, argv, &a);
	case_fn f = NULL;
	if (!strcmp(a.sub, "single")) f = case_single;
	else if (!strcmp(a.sub, "multi")) f = case_multi;
	else if (!strcmp(a.sub, "bigwrite")) f = case_bigwrite;
	else return 98;
	return run_cases(&a, f);
}
