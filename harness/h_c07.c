/* C07: fileset view follows the setfile; open iterators pin their snapshot.
 * The library's clock_gettime and stat are interposed (ld --wrap): the harness owns the monotonic
 * clock and sees every stat(setfile) = one reload attempt.  A model of the shared view is updated
 * exactly at those events; every iterator is shadowed by a snapshot of the expected content.
 *   P1  no reload attempt while any iterator on the shared fileset is open
 *   P2  reload deadline at source operations (reload_now pending / interval elapsed)
 *   P3  a new iterator returns merge(view as of the latest reload, filtered by the handle's filters)
 *   P4  iterators opened earlier keep their snapshot through any later history
 */
#include "family.h"
#include "suites.h"
#include <sys/stat.h>
#include <time.h>

int __real_stat(const char *, struct stat *);
int __real_clock_gettime(clockid_t, struct timespec *);

#define NF 6
#define MAXH 5
#define MAXIT 6

typedef struct { int exists, is_table; model_t content; char path[300]; } diskfile_t;
typedef struct { char name[300]; int fidx; int valid; model_t content; } loaded_t;
typedef struct {
	struct mtbl_fileset *f; int live; uint32_t interval; int mode; unsigned fname_mask; int rf_kind; size_t rf_thr;
	mclos_t mc; int open_iters; int is_dup;
} handle_t;
typedef struct { miter_t mi; model_t snap; int h; int live; bspec_t bs; int setver_at_open; } fit_t;

static struct {
	int active;
	struct timespec vnow;
	char dir[300], setfile[300];
	char setfile_arg[300];       /* the spelling handed to mtbl_fileset_init: the absolute path, or (process chdir'ed into the directory) "set.fileset" / "./set.fileset" */
	int relative_only;           /* such histories name their tables by relative lines only */
	diskfile_t disk[NF]; char junk[300];
	loaded_t view[NF + 4]; int nview;
	ino_t seen_ino; time_t seen_mtime; int seen_any;
	int setver;
	int in_init;                 /* stat(setfile) inside mtbl_fileset_init's existence assertion is not a reload attempt */
	int open_iters;              /* iterators open on the shared fileset, as the harness knows them */
	int forced_pending;
	long last_attempt_sec; int have_attempt;
	uint64_t attempts, attempts_changed_view, p1_violations;
	model_t universe;
} G;

/* ------------------------------------------------------------------ shims */
int __wrap_clock_gettime(clockid_t id, struct timespec *ts)
{
	if (!G.active || id != CLOCK_MONOTONIC) return __real_clock_gettime(id, ts);
	*ts = G.vnow;
	G.vnow.tv_nsec += 1;        /* strictly increasing, as the real clock is at nanosecond resolution */
	if (G.vnow.tv_nsec >= 1000000000) { G.vnow.tv_nsec -= 1000000000; G.vnow.tv_sec++; }
	STAT("events.clock_gettime");
	return 0;
}

static void model_reload_attempt(void);

int __wrap_stat(const char *path, struct stat *st)
{
	int r = __real_stat(path, st);
	if (G.active && !G.in_init && (strcmp(path, G.setfile) == 0 || strcmp(path, G.setfile_arg) == 0)) {
		/* one reload attempt inside my_fileset_reload */
		STAT("events.stat_setfile");
		G.attempts++;
		if (G.open_iters > 0) { G.p1_violations++; viol("C07/reload-while-iterator-open", "the setfile was stat()ed (reload attempt) while %d iterator(s) on the shared fileset were open", G.open_iters); }
		G.forced_pending = 0;
		G.last_attempt_sec = G.vnow.tv_sec; G.have_attempt = 1;
		if (r == 0) {
			if (!G.seen_any || G.seen_ino != st->st_ino || G.seen_mtime != st->st_mtime) {
				G.seen_any = 1; G.seen_ino = st->st_ino; G.seen_mtime = st->st_mtime;
				model_reload_attempt();
			}
		}
	}
	return r;
}

/* ------------------------------------------------------------------ model of the shared view */
static int name_cmp(const void *a, const void *b) { return strcmp(((const loaded_t *)a)->name, ((const loaded_t *)b)->name); }

static void model_copy(model_t *dst, const model_t *src)
{
	model_init(dst);
	for (size_t i = 0; i < src->n; i++) model_push(dst, src->e[i].k.p, src->e[i].k.n, src->e[i].v.p, src->e[i].v.n);
}

static void model_reload_attempt(void)
{
	/* the setfile changed: recompute the view from what is on disk right now */
	FILE *f = fopen(G.setfile, "r");
	if (!f) return;
	loaded_t nv[NF + 4]; int nn = 0;
	char line[600];
	int changed = 0;
	while (fgets(line, sizeof line, f)) {
		line[strcspn(line, "\n")] = 0;
		char full[700];
		if (line[0] == '/') snprintf(full, sizeof full, "%s", line); else snprintf(full, sizeof full, "%s/%s", G.dir, line);
		struct stat st;
		if (__real_stat(full, &st) != 0) continue;          /* named file is missing: skipped */
		loaded_t *old = NULL;
		for (int i = 0; i < G.nview; i++) if (strcmp(G.view[i].name, full) == 0) old = &G.view[i];
		loaded_t *e = &nv[nn++]; memset(e, 0, sizeof *e);
		snprintf(e->name, sizeof e->name, "%s", full);
		if (old) { e->fidx = old->fidx; e->valid = old->valid; e->content = old->content; old->fidx = -2; /* moved */ }
		else {
			changed = 1;
			e->fidx = -1;
			for (int d = 0; d < NF; d++) if (strcmp(G.disk[d].path, full) == 0) e->fidx = d;
			if (e->fidx >= 0 && G.disk[e->fidx].exists && G.disk[e->fidx].is_table) { e->valid = 1; model_copy(&e->content, &G.disk[e->fidx].content); }
			else { e->valid = 0; model_init(&e->content); }     /* not a table: loaded as nothing */
		}
	}
	fclose(f);
	for (int i = 0; i < G.nview; i++) if (G.view[i].fidx != -2) { changed = 1; model_free(&G.view[i].content); }   /* unloaded */
	memcpy(G.view, nv, sizeof(loaded_t) * nn); G.nview = nn;
	if (G.nview > 1) qsort(G.view, G.nview, sizeof(loaded_t), name_cmp);
	if (changed) { G.attempts_changed_view++; STAT("events.reload_changed_view"); }
	STAT("events.setfile_reread");
}

/* filters: the closure is the handle */
static bool fname_filter(const char *fname, void *clos)
{
	handle_t *h = clos;
	const char *b = strrchr(fname, '/'); b = b ? b + 1 : fname;
	int idx = (b[0] == 'f' && b[1] >= '0' && b[1] <= '9') ? b[1] - '0' : 7;
	return (h->fname_mask >> idx) & 1;
}
static bool reader_filter(struct mtbl_reader *rd, void *clos)
{
	handle_t *h = clos;
	uint64_t n = mtbl_metadata_count_entries(mtbl_reader_metadata(rd));
	return h->rf_kind == 1 ? (n % 2 == 0) : (n >= h->rf_thr);
}
static bool model_passes(const handle_t *h, const loaded_t *e)
{
	if (!e->valid) return false;
	if (h->fname_mask) { int idx = e->fidx >= 0 ? e->fidx : 7; if (!((h->fname_mask >> idx) & 1)) return false; }
	if (h->rf_kind == 1 && e->content.n % 2 != 0) return false;
	if (h->rf_kind == 2 && e->content.n < h->rf_thr) return false;
	return true;
}
static void expected_for(const handle_t *h, model_t *out)
{
	model_t flat; model_init(&flat);
	for (int i = 0; i < G.nview; i++) if (model_passes(h, &G.view[i])) for (size_t j = 0; j < G.view[i].content.n; j++) model_push(&flat, G.view[i].content.e[j].k.p, G.view[i].content.e[j].k.n, G.view[i].content.e[j].v.p, G.view[i].content.e[j].v.n);
	if (flat.n > 1) qsort(flat.e, flat.n, sizeof(ent_t), flat_cmp);
	if (h->mode == 1) { *out = flat; return; }
	model_init(out);
	for (size_t i = 0; i < flat.n;) {
		size_t j = i; uint8_t *acc = NULL; size_t la = 0;
		while (j < flat.n && key_cmp(flat.e[j].k.p, flat.e[j].k.n, flat.e[i].k.p, flat.e[i].k.n) == 0) { uint8_t *o; size_t lo; ms_union(acc, la, flat.e[j].v.p, flat.e[j].v.n, &o, &lo); free(acc); acc = o; la = lo; j++; }
		model_push(out, flat.e[i].k.p, flat.e[i].k.n, acc, la); free(acc); i = j;
	}
	model_free(&flat);
}

/* ------------------------------------------------------------------ environment actions */
static void write_table_file(rng_t *r, int d)
{
	diskfile_t *df = &G.disk[d];
	if (df->exists) { unlink(df->path); model_free(&df->content); }
	model_init(&df->content);
	for (size_t i = 0; i < G.universe.n; i++) if (rndp(r, 400)) { bs_t v = ids_value(1 + rndn(r, 3), (uint32_t)i); model_push(&df->content, G.universe.e[i].k.p, G.universe.e[i].k.n, v.p, v.n); free(v.p); }
	wcfg_t cfg; gen_wcfg(r, &cfg); cfg.pool = -1; cfg.block_size = 1024; cfg.prefix_len = 0; cfg.use_fd = 0; if (cfg.comp == 5 && cfg.level > 12) cfg.level = 3;
	int was = G.active; G.active = 0;
	write_model(df->path, &cfg, &df->content, NULL);
	G.active = was;
	df->exists = 1; df->is_table = 1;
}
static void delete_table_file(int d) { diskfile_t *df = &G.disk[d]; if (df->exists) { unlink(df->path); model_free(&df->content); df->exists = 0; } }

static void write_setfile_version(rng_t *r)
{
	char tmp[400]; snprintf(tmp, sizeof tmp, "%s.tmp", G.setfile);
	FILE *f = fopen(tmp, "w");
	int order[NF]; for (int i = 0; i < NF; i++) order[i] = i;
	for (int i = NF - 1; i > 0; i--) { int j = rndn(r, i + 1); int t = order[i]; order[i] = order[j]; order[j] = t; }   /* lines in any order */
	int p = 300 + rndn(r, 600);
	for (int i = 0; i < NF; i++) if (rndp(r, p)) { const char *b = strrchr(G.disk[order[i]].path, '/') + 1; if (G.relative_only) { fprintf(f, "%s\n", b); continue; } int inside = strncmp(G.disk[order[i]].path, G.dir, strlen(G.dir)) == 0 && G.disk[order[i]].path[strlen(G.dir)] == '/';
		if (inside && rndp(r, 500)) fprintf(f, "%s\n", b); else { fprintf(f, "%s\n", G.disk[order[i]].path); if (!inside) STAT("actions.setfile_line_absolute_outside_setfile_directory"); } }
	if (rndp(r, 250)) fprintf(f, "never-existed.mtbl\n");
	if (rndp(r, 250)) fprintf(f, "%s\n", (G.relative_only || rndp(r, 500)) ? "junk.bin" : G.junk);
	if (rndp(r, 150)) fprintf(f, "\n");                       /* a blank line resolves to the setfile's directory: exists, is not a table */
	if (rndp(r, 250)) { long sz = ftell(f); if (sz > 0) { fflush(f); if (ftruncate(fileno(f), sz - 1) == 0) STAT("actions.setfile_without_final_newline"); } }
	fclose(f);
	G.setver++;
	static long cur_mtime;
	struct stat st;
	if (G.setver > 1 && rndn(r, 3) == 0 && __real_stat(G.setfile, &st) == 0) {
		/* in-place rewrite (same inode) with an explicitly set mtime that differs from the current one: newer, or OLDER
		   (cp -p of a backup, rsync -t, a clock that stepped back); an unchanged (inode, mtime) pair is undetectable by design and not generated */
		size_t n; uint8_t *b = read_file(tmp, &n);
		int fd = open(G.setfile, O_WRONLY | O_TRUNC);
		if (fd >= 0 && b) { if (write(fd, b, n) != (ssize_t)n) {} close(fd); }
		free(b); unlink(tmp);
		cur_mtime = st.st_mtime;
		cur_mtime = rndn(r, 2) ? cur_mtime - 3 - (long)rndn(r, 40) : cur_mtime + 2 + (long)rndn(r, 5);
		struct timespec ts[2] = {{cur_mtime, 0}, {cur_mtime, 0}};
		utimensat(AT_FDCWD, G.setfile, ts, 0);
		STAT("actions.setfile_rewritten_in_place");
		if (cur_mtime < st.st_mtime) STAT("actions.setfile_rewritten_in_place_with_older_mtime");
		return;
	}
	if (G.setver == 1 || cur_mtime < 3000000) cur_mtime = 3000000;
	cur_mtime += 50 + (long)rndn(r, 3);
	struct timespec ts[2] = {{cur_mtime, 0}, {cur_mtime, 0}};   /* explicit second: change detection does not depend on wall-clock coincidences */
	utimensat(AT_FDCWD, tmp, ts, 0);
	rename(tmp, G.setfile);
}

/* ------------------------------------------------------------------ history */
static handle_t H[MAXH]; static fit_t IT[MAXIT];
static char trace[64][48]; static int ntrace;
static uint64_t bigram_seen[64]; static const char *prev_act;
static void act(const char *name)
{
	statf(1, "actions.%s", name);
	char *slot = trace[ntrace++ & 63];
	snprintf(slot, 48, "%s", name);
	if (prev_act) { uint64_t hh = fnv64(prev_act, strlen(prev_act), fnv64(slot, strlen(slot), 0)); bigram_seen[hh & 63] |= 1ULL << ((hh >> 6) & 63); }
	prev_act = slot;
}
static const char *trace_str(void)
{
	static char b[1200]; int o = 0; int st = ntrace > 14 ? ntrace - 14 : 0;
	for (int i = st; i < ntrace; i++) o += snprintf(b + o, sizeof b - o, "%s%s", i > st ? " > " : "", trace[i & 63]);
	return b;
}

static struct mtbl_fileset_options *handle_opts(rng_t *r, handle_t *h)
{
	static const uint32_t IV[] = {0, 1, 5, MTBL_FILESET_RELOAD_INTERVAL_NEVER};
	struct mtbl_fileset_options *fo = mtbl_fileset_options_init();
	memset(&h->mc, 0, sizeof h->mc); h->mc.universe = &G.universe;
	h->interval = PICK(r, IV);
	mtbl_fileset_options_set_reload_interval(fo, h->interval);
	h->mode = rndn(r, 4) == 0;
	if (h->mode == 0) mtbl_fileset_options_set_merge_func(fo, ms_merge_cb, &h->mc); else mtbl_fileset_options_set_dupsort_func(fo, dupsort_bytes, DUPSORT_CLOS);
	h->fname_mask = rndn(r, 3) == 0 ? (1 + rndn(r, 62)) : 0;
	if (h->fname_mask) mtbl_fileset_options_set_filename_filter_func(fo, fname_filter, h);
	h->rf_kind = rndn(r, 4) == 0 ? 1 + rndn(r, 2) : 0; h->rf_thr = rndn(r, (uint32_t)G.universe.n / 2 + 1);
	if (h->rf_kind) mtbl_fileset_options_set_reader_filter_func(fo, reader_filter, h);
	h->open_iters = 0; h->live = 1;
	return fo;
}

static void check_deadline(const handle_t *h, int iters_open_before, const char *what)
{
	if (iters_open_before > 0) { STAT("p2.skipped_iterator_open"); return; }
	STAT("p2.deadline_checks");
	if (G.forced_pending) viol("C07/forced-reload-not-done-by-source-operation", "%s returned with no iterator open, but the reload requested by reload_now()/initial load has not been attempted [%s]", what, trace_str());
	if (h->interval != MTBL_FILESET_RELOAD_INTERVAL_NEVER && G.have_attempt && G.vnow.tv_sec - G.last_attempt_sec > (long)h->interval)
		viol("C07/reload-interval-deadline-missed", "%s returned at t=%lds; last reload attempt at t=%lds; handle interval %u s [%s]", what, (long)G.vnow.tv_sec, G.last_attempt_sec, h->interval, trace_str());
}

static void case_c07(const args_t *a, long c, rng_t *r)
{
	g_prop = "C07";
	memset(&G, 0, sizeof G); memset(H, 0, sizeof H); memset(IT, 0, sizeof IT); ntrace = 0; prev_act = NULL;
	g_next_id = 1;
	char real[300]; snprintf(G.dir, sizeof G.dir, "%s/fs%ld", a->workdir, c); mkdir(G.dir, 0700);
	if (realpath(G.dir, real)) snprintf(G.dir, sizeof G.dir, "%s", real);
	snprintf(G.setfile, sizeof G.setfile, "%s/set.fileset", G.dir);
	snprintf(G.junk, sizeof G.junk, "%s/junk.bin", G.dir); { uint8_t b[1500]; for (size_t i = 0; i < sizeof b; i++) b[i] = (uint8_t)rnd64(r); write_file(G.junk, b, sizeof b); }
	shape_t sh; gen_shape(r, &sh, 1024, 0); if (sh.pfx_len > 60) sh.pfx_len = 60;
	gen_model(r, &sh, 8 + rndn(r, 60), rndp(r, 300), &G.universe); shape_free(&sh);
	/* in a third of the histories every third table lives in a sibling directory (named by absolute path only: a different directory prefix
	 * than the setfile's own, in front of and behind relative lines) */
	int bare = rndn(r, 4) == 0;      /* a quarter of the histories open the fileset by a name without any directory part */
	int side = !bare && rndn(r, 3) == 0;
	char oldcwd[4096] = "";
	snprintf(G.setfile_arg, sizeof G.setfile_arg, "%s", G.setfile);
	if (bare && getcwd(oldcwd, sizeof oldcwd) && chdir(G.dir) == 0) {
		snprintf(G.setfile_arg, sizeof G.setfile_arg, "%s", rndn(r, 2) ? "set.fileset" : "./set.fileset");
		G.relative_only = 1;
		STAT("histories.fileset_opened_by_a_name_relative_to_the_working_directory");
	} else bare = 0;
	char sidedir[300]; snprintf(sidedir, sizeof sidedir, "%s.side", G.dir); if (side) { mkdir(sidedir, 0700); STAT("histories.with_tables_in_a_sibling_directory"); }
	for (int d = 0; d < NF; d++) { snprintf(G.disk[d].path, sizeof G.disk[d].path, "%s/f%d.mtbl", side && d % 3 == 2 ? sidedir : G.dir, d); if (rndp(r, 700)) write_table_file(r, d); }
	write_setfile_version(r);
	{ static const long T0[] = {0, 0, 1, 4, 30, 59, 1000, 86400}; G.vnow.tv_sec = PICK(r, T0) + (long)rndn(r, 2); G.vnow.tv_nsec = 1 + rndn(r, 1000); }   /* also a process started right after boot */
	G.forced_pending = 1;          /* a fresh fileset must load on its first source operation */
	G.active = 1;
	/* original handle */
	{ struct mtbl_fileset_options *fo = handle_opts(r, &H[0]); G.in_init = 1; H[0].f = mtbl_fileset_init(G.setfile_arg, fo); G.in_init = 0; mtbl_fileset_options_destroy(&fo); }
	int nactions = 20 + rndn(r, a->thorough ? 140 : 100);
	int max_handles = 1, iters_across_change = 0;
	/* scripted prefixes on some cases: the F3 family and deferred reloads */
	int script = (c % 8 == 0) ? 1 + (int)((c / 8) % 3) : 0;
	for (int step = 0; step < nactions; step++) {
		int live_h[MAXH], nlh = 0; for (int i = 0; i < MAXH; i++) if (H[i].live) live_h[nlh++] = i;
		if (!nlh) break;
		int hi = live_h[rndn(r, nlh)]; handle_t *h = &H[hi];
		int op = rndn(r, 100);
		if (script) {
			/* scripted openings: (1) dup, load through both, drop/add names, reload_now through each handle in either order, open;
			   (2) reload_now deferred by an open iterator; (3) time passing around a change with several handles */
			static const int S1[] = {90, 50, 80, 50, 80, 5, 35, 35, 50, 80, -1}, S2[] = {50, 5, 35, 70, 80, 50, 80, -1}, S3[] = {90, 50, 80, 5, 22, 50, 80, 50, 80, -1};
			const int *S = script == 1 ? S1 : script == 2 ? S2 : S3;
			int len = 0; while (S[len] >= 0) len++;
			if (step < len) op = S[step];
		}
		if (op < 10) { write_setfile_version(r); act("rewrite_setfile"); for (int i = 0; i < MAXIT; i++) if (IT[i].live) iters_across_change = 1; }
		else if (op < 16) { int d = rndn(r, NF); if (G.disk[d].exists && rndn(r, 2)) { delete_table_file(d); act("delete_table"); } else { write_table_file(r, d); act("create_or_replace_table"); } }
		else if (op < 26) { static const int D[] = {0, 1, 1, 2, 5, 6, 61}; int dt = PICK(r, D); G.vnow.tv_sec += dt; statf(1, "actions.advance_clock.%d", dt); act("advance_clock"); }
		else if (op < 32) { act("reload"); mtbl_fileset_reload(h->f); }
		else if (op < 40) {
			act("reload_now");
			if (G.open_iters > 0) { G.forced_pending = 1; STAT("events.reload_now_deferred"); }
			else G.forced_pending = 1;     /* cleared by the stat(setfile) inside the call */
			mtbl_fileset_reload_now(h->f);
			if (G.open_iters == 0 && G.forced_pending) viol("C07/reload_now-did-not-reload", "reload_now() with no iterator open returned without a reload attempt [%s]", trace_str());
		}
		else if (op < 56) {
			/* open an iterator: a source operation */
			int slot = -1; for (int i = 0; i < MAXIT; i++) if (!IT[i].live) { slot = i; break; }
			if (slot < 0) continue;
			fit_t *ft = &IT[slot]; memset(ft, 0, sizeof *ft);
			int before = G.open_iters;
			/* bounds drawn from the universe (the expected content is not known before the op returns) */
			memset(&ft->bs, 0, sizeof ft->bs); ft->bs.kind = (ikind_t)rndn(r, 4);
			if (G.universe.n) {
				const ent_t *e = &G.universe.e[rndn(r, G.universe.n)], *e2 = &G.universe.e[rndn(r, G.universe.n)];
				if (key_cmp(e->k.p, e->k.n, e2->k.p, e2->k.n) > 0) { const ent_t *t = e; e = e2; e2 = t; }
				if (ft->bs.kind == IK_GET) ft->bs.a = bs_dup(e->k.p, e->k.n);
				else if (ft->bs.kind == IK_PREFIX) ft->bs.a = bs_dup(e->k.p, e->k.n ? rndn(r, e->k.n + 1) : 0);
				else if (ft->bs.kind == IK_RANGE) { ft->bs.a = bs_dup(e->k.p, e->k.n); ft->bs.b = bs_dup(e2->k.p, e2->k.n); }
			} else ft->bs.kind = IK_ITER;
			char nm[40]; snprintf(nm, sizeof nm, "open_%s", IK_NAME[ft->bs.kind]); act(nm);
			/* the model pointer must exist before miter_open computes the start position: open against a placeholder, then re-base */
			model_t empty; model_init(&empty);
			/* a reload attempt inside the call happens before the library counts the new iterator: G.open_iters is raised only afterwards */
			miter_open(&ft->mi, mtbl_fileset_source(h->f), &empty, ft->bs.kind, ft->bs.a.p, ft->bs.a.n, ft->bs.b.p, ft->bs.b.n);
			check_deadline(h, before, nm);
			expected_for(h, &ft->snap);     /* P3/P4: the view as of the latest reload, pinned */
			ft->mi.m = &ft->snap; ft->mi.pos = bound_start(&ft->snap, &ft->mi.bd);
			ft->h = hi; ft->live = 1; ft->setver_at_open = G.setver;
			G.open_iters++; h->open_iters++;
			if (rndn(r, 3) == 0) { size_t k = 1 + rndn(r, 5); for (size_t i = 0; i < k; i++) miter_next(&ft->mi, "fileset-iter"); }
		}
		else if (op < 70) {
			int live_i[MAXIT], n = 0; for (int i = 0; i < MAXIT; i++) if (IT[i].live) live_i[n++] = i;
			if (!n) continue;
			fit_t *ft = &IT[live_i[rndn(r, n)]];
			if (ft->setver_at_open != G.setver) STAT("p4.ops_on_iterator_older_than_setfile");
			if (rndn(r, 3) == 0 && ft->snap.n) {
				ibound_t bd = ft->mi.bd; size_t st = bound_start(&ft->snap, &bd);
				const ent_t *e = st < ft->snap.n ? &ft->snap.e[st + rndn(r, (uint32_t)(ft->snap.n - st))] : NULL;
				if (e) { act("iter_seek"); miter_seek(&ft->mi, e->k.p, e->k.n, "fileset-iter"); }
			} else { act("iter_next"); size_t k = 1 + rndn(r, 8); for (size_t i = 0; i < k; i++) if (!miter_next(&ft->mi, "fileset-iter")) break; }
		}
		else if (op < 88) {
			int live_i[MAXIT], n = 0; for (int i = 0; i < MAXIT; i++) if (IT[i].live) live_i[n++] = i;
			if (!n) continue;
			fit_t *ft = &IT[live_i[rndn(r, n)]];
			act("close_iter");
			if (rndn(r, 2)) miter_drain(&ft->mi, "fileset-iter-drain");
			/* the library drops its count before the reload attempt it makes inside the destructor */
			G.open_iters--; H[ft->h].open_iters--;
			miter_close(&ft->mi);
			model_free(&ft->snap); bspec_free(&ft->bs); ft->live = 0;
		}
		else if (op < 94) {
			int slot = -1; for (int i = 0; i < MAXH; i++) if (!H[i].live) { slot = i; break; }
			if (slot < 0) continue;
			act("dup");
			struct mtbl_fileset_options *fo = handle_opts(r, &H[slot]);
			H[slot].f = mtbl_fileset_dup(h->f, fo); H[slot].is_dup = 1;
			mtbl_fileset_options_destroy(&fo);
			int nl = 0; for (int i = 0; i < MAXH; i++) nl += H[i].live; if (nl > max_handles) max_handles = nl;
		}
		else {
			if (h->open_iters > 0 || nlh == 1) continue;        /* iterators are closed before their handle; keep one handle */
			act(h->is_dup ? "destroy_dup" : "destroy_original");
			mtbl_fileset_destroy(&h->f); h->live = 0;
		}
	}
	/* wind down: close iterators (draining them: P4 to the very end), destroy handles in random order */
	for (int i = 0; i < MAXIT; i++) if (IT[i].live) { miter_drain(&IT[i].mi, "final-drain"); G.open_iters--; H[IT[i].h].open_iters--; miter_close(&IT[i].mi); model_free(&IT[i].snap); bspec_free(&IT[i].bs); IT[i].live = 0; }
	for (int k = 0; k < MAXH * 3; k++) { int i = rndn(r, MAXH); if (H[i].live) { if (H[i].mc.operand_errors) viol("C07/merge-callback-got-foreign-or-stale-operand", "bad merge operands"); mtbl_fileset_destroy(&H[i].f); H[i].live = 0; } }
	for (int i = 0; i < MAXH; i++) if (H[i].live) { mtbl_fileset_destroy(&H[i].f); H[i].live = 0; }
	if (g_dupsort_wrong_clos) { viol("C07/dupsort-called-with-wrong-closure", "dupsort got a foreign closure %" PRIu64 " times", g_dupsort_wrong_clos); g_dupsort_wrong_clos = 0; }
	G.active = 0;
	stat_add("events.reload_attempts", G.attempts);
	statf(1, "histories.max_handles.%d", max_handles);
	if (iters_across_change) STAT("histories.with_iterator_alive_across_setfile_change");
	if (script) statf(1, "histories.scripted.%d", script);
	uint64_t bg = 0; for (int i = 0; i < 64; i++) bg += __builtin_popcountll(bigram_seen[i]);
	stat_max("max.distinct_action_bigrams_in_one_history", bg);
	stat_add("history.actions", ntrace);
	STAT("histories");
	if (want_sample()) sample("c07: %d actions, %d handles max, %" PRIu64 " reload attempts (%" PRIu64 " changed the view); last actions: %s", ntrace, max_handles, G.attempts, G.attempts_changed_view, trace_str());
	{ uint64_t hh = 0; for (int i = 0; i < ntrace && i < 64; i++) hh = fnv64(trace[i], strlen(trace[i]), hh); case_hash(hh ^ (uint64_t)c); }
	for (int i = 0; i < G.nview; i++) model_free(&G.view[i].content);
	for (int d = 0; d < NF; d++) delete_table_file(d);
	if (bare && chdir(oldcwd) != 0) { fprintf(stderr, "harness: cannot return to %s\n", oldcwd); exit(99); }
	unlink(G.junk); unlink(G.setfile); rmdir(G.dir); if (side) rmdir(sidedir);
	model_free(&G.universe);
}

int main(int argc, char **argv)
{
	args_t a;
	parse_args(argc, argv, &a);
	if (strcmp(a.sub, "c07")) return 98;
	return run_cases(&a, case_c07);
}
