#include "refdec.h"

#include <lz4.h>
#include <snappy-c.h>
#include <zlib.h>
#include <zstd.h>

/* ---- primitives (own implementations) */
static uint32_t crc_tab[256];
static int crc_tab_ready;
static void crc_init(void)
{
	for (uint32_t i = 0; i < 256; i++) {
		uint32_t c = i;
		for (int k = 0; k < 8; k++) c = (c & 1) ? (c >> 1) ^ 0x82F63B78u : (c >> 1);
		crc_tab[i] = c;
	}
	crc_tab_ready = 1;
}
uint32_t rd_crc32c(const uint8_t *p, size_t n)
{
	if (!crc_tab_ready) crc_init();
	uint32_t c = 0xffffffffu;
	for (size_t i = 0; i < n; i++) c = crc_tab[(c ^ p[i]) & 0xff] ^ (c >> 8);
	return c ^ 0xffffffffu;
}
unsigned rd_varint(const uint8_t *p, const uint8_t *end, uint64_t *v)
{
	uint64_t x = 0;
	for (unsigned i = 0; i < 10 && p + i < end; i++) {
		x |= (uint64_t)(p[i] & 0x7f) << (7 * i);
		if (!(p[i] & 0x80)) { *v = x; return i + 1; }
	}
	return 0;
}
unsigned rd_varint_put(uint8_t *p, uint64_t v)
{
	unsigned n = 0;
	do { uint8_t b = v & 0x7f; v >>= 7; if (v) b |= 0x80; p[n++] = b; } while (v);
	return n;
}
uint32_t rd_le32(const uint8_t *p) { return (uint32_t)p[0] | (uint32_t)p[1] << 8 | (uint32_t)p[2] << 16 | (uint32_t)p[3] << 24; }
uint64_t rd_le64(const uint8_t *p) { return (uint64_t)rd_le32(p) | (uint64_t)rd_le32(p + 4) << 32; }
void rd_put32(uint8_t *p, uint32_t v) { for (int i = 0; i < 4; i++) p[i] = (uint8_t)(v >> (8 * i)); }
void rd_put64(uint8_t *p, uint64_t v) { for (int i = 0; i < 8; i++) p[i] = (uint8_t)(v >> (8 * i)); }

int rd_decompress(int comp, const uint8_t *in, size_t n, uint8_t **out, size_t *outn)
{
	switch (comp) {
	case 1: { /* snappy */
		size_t ul;
		if (snappy_uncompressed_length((const char *)in, n, &ul) != SNAPPY_OK) return -1;
		uint8_t *o = xmalloc(ul);
		if (snappy_uncompress((const char *)in, n, (char *)o, &ul) != SNAPPY_OK) { free(o); return -1; }
		*out = o; *outn = ul; return 0;
	}
	case 2: { /* zlib */
		size_t cap = n * 4 + 1024;
		for (int tries = 0; tries < 24; tries++) {
			uint8_t *o = xmalloc(cap);
			uLongf dl = cap;
			int z = uncompress(o, &dl, in, n);
			if (z == Z_OK) { *out = o; *outn = dl; return 0; }
			free(o);
			if (z != Z_BUF_ERROR) return -1;
			cap *= 2;
		}
		return -1;
	}
	case 3: case 4: { /* lz4 / lz4hc: LE32 uncompressed size, then one LZ4 block */
		if (n < 4) return -1;
		uint32_t ul = rd_le32(in);
		uint8_t *o = xmalloc(ul);
		int r = LZ4_decompress_safe((const char *)in + 4, (char *)o, (int)(n - 4), (int)ul);
		if (r < 0 || (uint32_t)r != ul) { free(o); return -1; }
		*out = o; *outn = ul; return 0;
	}
	case 5: { /* zstd */
		unsigned long long cs = ZSTD_getFrameContentSize(in, n);
		if (cs == ZSTD_CONTENTSIZE_ERROR || cs == ZSTD_CONTENTSIZE_UNKNOWN) return -1;
		uint8_t *o = xmalloc(cs);
		size_t r = ZSTD_decompress(o, cs, in, n);
		if (ZSTD_isError(r) || r != cs) { free(o); return -1; }
		*out = o; *outn = cs; return 0;
	}
	default:
		return -1;
	}
}

void rd_block_free(rd_block_t *b)
{
	for (size_t i = 0; i < b->n_ents; i++) free(b->ents[i].k.p);
	free(b->ents); free(b->restarts);
	if (b->raw_owned) free(b->raw);
	memset(b, 0, sizeof *b);
}

#define BERR(...) do { snprintf(err, 300, __VA_ARGS__); return -1; } while (0)

static int parse_entries(rd_block_t *b, char *err)
{
	const uint8_t *raw = b->raw;
	size_t n = b->raw_len;
	if (n < 8) BERR("block of %zu bytes is too small for a restart array", n);
	b->n_restarts = rd_le32(raw + n - 4);
	if (b->n_restarts == 0) BERR("restart count is zero");
	uint64_t need32 = 4 + (uint64_t)b->n_restarts * 4;
	if (need32 > n) BERR("restart array (%u) larger than block (%zu)", b->n_restarts, n);
	b->entries_end = n - need32;
	b->restart64 = 0;
	if (b->entries_end > UINT32_MAX) {
		uint64_t need64 = 4 + (uint64_t)b->n_restarts * 8;
		if (need64 > n) BERR("64-bit restart array larger than block");
		b->entries_end = n - need64;
		b->restart64 = 1;
		if (b->entries_end <= UINT32_MAX) BERR("ambiguous restart array width");
	}
	b->restarts = xcalloc(b->n_restarts, sizeof(uint64_t));
	for (uint32_t i = 0; i < b->n_restarts; i++)
		b->restarts[i] = b->restart64 ? rd_le64(raw + b->entries_end + 8 * (uint64_t)i) : rd_le32(raw + b->entries_end + 4 * (uint64_t)i);

	size_t cap = 0;
	const uint8_t *p = raw, *end = raw + b->entries_end;
	bs_t prev = {NULL, 0};
	while (p < end) {
		uint64_t sh, ns, vl;
		unsigned a, c, d;
		const uint8_t *h = p;
		if (!(a = rd_varint(p, end, &sh))) BERR("entry %zu: bad shared varint", b->n_ents);
		p += a;
		if (!(c = rd_varint(p, end, &ns))) BERR("entry %zu: bad non_shared varint", b->n_ents);
		p += c;
		if (!(d = rd_varint(p, end, &vl))) BERR("entry %zu: bad value_length varint", b->n_ents);
		p += d;
		if (sh > UINT32_MAX || ns > UINT32_MAX || vl > UINT32_MAX) BERR("entry %zu: length field exceeds 32 bits", b->n_ents);
		if (ns + vl > (uint64_t)(end - p)) BERR("entry %zu: key/value run past the entry area", b->n_ents);
		if (sh > prev.n) BERR("entry %zu: shared %" PRIu64 " exceeds previous key length %zu", b->n_ents, sh, prev.n);
		if (b->n_ents == cap) { cap = cap ? cap * 2 : 16; b->ents = xrealloc(b->ents, cap * sizeof(rd_ent_t)); }
		rd_ent_t *e = &b->ents[b->n_ents++];
		memset(e, 0, sizeof *e);
		e->off = h - raw; e->shared = sh; e->nonshared = ns; e->vlen = vl; e->hdr_len = a + c + d;
		e->k.n = sh + ns; e->k.p = xmalloc(e->k.n);
		if (sh) memcpy(e->k.p, prev.p, sh);
		if (ns) memcpy(e->k.p + sh, p, ns);
		e->v = p + ns;
		p += ns + vl;
		prev = e->k;
	}
	/* restart array validity */
	b->restarts_valid = 1;
	size_t ei = 0;
	for (uint32_t i = 0; i < b->n_restarts; i++) {
		if (i == 0 && b->restarts[0] != 0) b->restarts_valid = 0;
		if (i && b->restarts[i] <= b->restarts[i - 1]) b->restarts_valid = 0;
		while (ei < b->n_ents && b->ents[ei].off < b->restarts[i]) ei++;
		if (ei < b->n_ents && b->ents[ei].off == b->restarts[i]) {
			b->ents[ei].is_restart = 1;
			if (b->ents[ei].shared != 0) b->restarts_valid = 0;
		} else if (!(b->n_ents == 0 && i == 0 && b->restarts[0] == 0)) {
			b->restarts_valid = 0;
		}
	}
	return 0;
}

int rd_parse_block(const uint8_t *file, uint64_t off, uint64_t limit, int version, int comp, rd_block_t *b, char *err)
{
	memset(b, 0, sizeof *b);
	b->file_off = off;
	if (off >= limit) BERR("block offset %" PRIu64 " beyond limit %" PRIu64, off, limit);
	if (version == 1) {
		if (limit - off < 8) BERR("v1 block header truncated");
		b->len_len = 4;
		b->stored_len = rd_le32(file + off);
	} else {
		b->len_len = rd_varint(file + off, file + limit, &b->stored_len);
		if (!b->len_len) BERR("bad block length varint at %" PRIu64, off);
	}
	if (limit - off < b->len_len + 4 || b->stored_len > limit - off - b->len_len - 4)
		BERR("block at %" PRIu64 " (len %" PRIu64 ") runs past %" PRIu64, off, b->stored_len, limit);
	b->crc_stored = rd_le32(file + off + b->len_len);
	const uint8_t *stored = file + off + b->len_len + 4;
	b->crc_calc = rd_crc32c(stored, b->stored_len);
	b->frame_len = b->len_len + 4 + b->stored_len;
	if (comp == 0) {
		b->raw = (uint8_t *)stored; b->raw_len = b->stored_len; b->raw_owned = 0;
	} else {
		if (rd_decompress(comp, stored, b->stored_len, &b->raw, &b->raw_len) != 0)
			BERR("block at %" PRIu64 ": decompression (algorithm %d) failed", off, comp);
		b->raw_owned = 1;
	}
	if (parse_entries(b, err) != 0) { char e2[300]; snprintf(e2, sizeof e2, "block at %" PRIu64 ": %.200s", off, err); strcpy(err, e2); return -1; }
	return 0;
}

int64_t rd_index_off_override = -1;

/* walk the length-prefixed frames from `start`; they must end exactly at the trailer; the last one is the index block */
int64_t rd_find_index_by_walking(const uint8_t *data, size_t len, uint64_t start, int version)
{
	if (len < 512 || start > len - 512) return -1;
	uint64_t off = start, last = start, end = len - 512; int n = 0;
	while (off < end) {
		uint64_t bl; unsigned ll;
		if (version == 1) { if (end - off < 8) return -1; bl = rd_le32(data + off); ll = 4; }
		else { ll = rd_varint(data + off, data + end, &bl); if (!ll) return -1; }
		if (bl > end - off || ll + 4 > end - off - bl) return -1;
		last = off; off += ll + 4 + bl; n++;
	}
	return (off == end && n > 0) ? (int64_t)last : -1;
}

#define FERR(...) do { snprintf(f->err, sizeof f->err, __VA_ARGS__); return -1; } while (0)

int rd_parse(const uint8_t *data, size_t len, int64_t start, rd_file_t *f)
{
	memset(f, 0, sizeof *f);
	if (len < 512) FERR("file shorter than the trailer (%zu)", len);
	const uint8_t *t = data + len - 512;
	f->magic = rd_le32(t + 508);
	if (f->magic == 0x4D54424Cu) f->version = 2;
	else if (f->magic == 0x77846676u) f->version = 1;
	else FERR("bad magic %08x", f->magic);
	for (int i = 0; i < 9; i++) f->t[i] = rd_le64(t + 8 * i);
	f->trailer_padding_zero = 1;
	for (int i = 72; i < 508; i++) if (t[i]) f->trailer_padding_zero = 0;
	uint64_t ioff = f->t[T_INDEX_OFF];
	if (rd_index_off_override >= 0) ioff = (uint64_t)rd_index_off_override;     /* caller located the index by walking the frames */
	if (ioff >= len - 512) FERR("index offset %" PRIu64 " not before trailer", ioff);
	if (f->t[T_COMP] > 5) FERR("unknown compression %" PRIu64, f->t[T_COMP]);
	if (rd_parse_block(data, ioff, len - 512, f->version, 0, &f->index, f->err) != 0) return -1;
	f->index_offsets = xcalloc(f->index.n_ents, sizeof(uint64_t));
	for (size_t i = 0; i < f->index.n_ents; i++) {
		rd_ent_t *e = &f->index.ents[i];
		uint64_t v;
		unsigned n = rd_varint(e->v, e->v + e->vlen, &v);
		if (!n || n != e->vlen) FERR("index entry %zu: value is not exactly one varint", i);
		f->index_offsets[i] = v;
	}
	size_t cap = 0;
	if (start >= 0) {
		uint64_t off = start;
		while (off < ioff) {
			if (f->n_blocks == cap) { cap = cap ? cap * 2 : 16; f->blocks = xrealloc(f->blocks, cap * sizeof(rd_block_t)); }
			if (rd_parse_block(data, off, ioff, f->version, (int)f->t[T_COMP], &f->blocks[f->n_blocks], f->err) != 0) return -1;
			off += f->blocks[f->n_blocks].frame_len;
			f->n_blocks++;
		}
		if (off != ioff) FERR("data blocks end at %" PRIu64 ", index starts at %" PRIu64, off, ioff);
	} else {
		for (size_t i = 0; i < f->index.n_ents; i++) {
			if (f->n_blocks == cap) { cap = cap ? cap * 2 : 16; f->blocks = xrealloc(f->blocks, cap * sizeof(rd_block_t)); }
			if (rd_parse_block(data, f->index_offsets[i], ioff, f->version, (int)f->t[T_COMP], &f->blocks[f->n_blocks], f->err) != 0) return -1;
			f->n_blocks++;
		}
	}
	return 0;
}

void rd_free(rd_file_t *f)
{
	for (size_t i = 0; i < f->n_blocks; i++) rd_block_free(&f->blocks[i]);
	free(f->blocks);
	rd_block_free(&f->index);
	free(f->index_offsets);
	memset(f, 0, sizeof *f);
}
