/* merge DSO for the real mtbl_merge tool: MTBL_MERGE_DSO=<this>.so MTBL_MERGE_FUNC_PREFIX=vmerge */
#include <stddef.h>
#include "msmerge.h"
void vmerge_func(void *clos, const uint8_t *key, size_t len_key, const uint8_t *val0, size_t len_val0,
		 const uint8_t *val1, size_t len_val1, uint8_t **merged_val, size_t *len_merged_val);
void *vmerge_init_func(void);
void vmerge_free_func(void *);
static int inits, frees;
void vmerge_func(void *clos, const uint8_t *key, size_t len_key, const uint8_t *val0, size_t len_val0,
		 const uint8_t *val1, size_t len_val1, uint8_t **merged_val, size_t *len_merged_val)
{
	(void)key; (void)len_key;
	if (clos != (void *)&inits) {
		/* the state from vmerge_init_func did not reach the merge function: make the damage visible in the output */
		static const uint8_t lost[] = "CLOSURE-FROM-INIT-FUNC-LOST";
		*merged_val = malloc(sizeof lost); memcpy(*merged_val, lost, sizeof lost); *len_merged_val = sizeof lost;
		return;
	}
	ms_union(val0, len_val0, val1, len_val1, merged_val, len_merged_val);
}
void *vmerge_init_func(void) { inits++; return &inits; }
void vmerge_free_func(void *p) { (void)p; frees++; }
