#!/bin/sh
# Offline setup: nothing is downloaded or pre-built (every check rebuilds from /repo's working tree);
# this only verifies that the toolchain and the compression libraries the harnesses link are present.
cd "$(dirname "$0")" || exit 1
mkdir -p .build evidence
T=$(mktemp -d /var/tmp/mtblv-setup.XXXXXX) || exit 1
cat > $T/t.c <<'C'
#include <zlib.h>
#include <lz4.h>
#include <snappy-c.h>
#include <zstd.h>
#include <pthread.h>
int main(void){return zlibVersion()==0;}
C
gcc -fsanitize=address,undefined $T/t.c -o $T/t -lz -llz4 -lsnappy -lzstd -lpthread && $T/t && \
gcc -fsanitize=thread $T/t.c -o $T/t2 -lz -llz4 -lsnappy -lzstd -lpthread && $T/t2
rc=$?
rm -rf $T
[ $rc -eq 0 ] && echo "setup ok" || echo "setup FAILED: toolchain or libraries missing"
exit $rc
