import build as B, runner

LEVEL = "exploration"


def build(ctx):
    ctx.builddir = B.fresh_dir("c08")
    d = ctx.builddir + "/asan"
    objs = B.build_lib("asan", d)
    exes = {"h_writer": B.build_harness("asan", d, "h_writer", ["h_writer.c", "refdec.c"], objs)}
    if ctx.tier == "thorough":
        d2 = ctx.builddir + "/plain"
        exes["h_writer.plain"] = B.build_harness("plain", d2, "h_writer.plain", ["h_writer.c", "refdec.c"], B.build_lib("plain", d2))
    return exes


def run(ctx):
    exes = build(ctx)
    exe = exes["h_writer"]
    th = ctx.tier == "thorough"
    calls = [((exe, "c08", 60000 if th else 5000), dict(timeout=120, max_workers=15 if th else 16, chunk=100 if th else 20))]   # many short processes: some state of the writer code is per process
    if th:   # keys of 2^31 + 1 bytes against their own prefixes / extensions (about 6 GiB and 20 s per case, -O2 build)
        calls.append(((exes["h_writer.plain"], "c08big", 5), dict(chunk=1, timeout=900, max_workers=1, prefix="plain.")))
    ctx.fan_parallel(calls)
    ctx.fan(exe, "c08pre", 400 if th else 40, timeout=60)
    s = ctx.stats
    adds = sum(v for k, v in s.items() if k.startswith("c08.adds."))
    refused = sum(v for k, v in s.items() if k.startswith("c08.adds.refused."))
    ctx.assumptions += ["expected return value = (no accepted key yet) or key > last accepted key under the harness's own unsigned bytewise comparator",
                        "after an unexpected accept the model follows the writer so later expectations stay aligned (the first deviation is the witness)"]
    return ctx.finish(
        rule="add sequences of 5..500 (thorough 1200) adds, ~40% deliberately not increasing (equal, proper prefix, byte lowered, ff-tail, sign trap across 0x7f/0x80), first key sometimes empty; "
             "every return value compared with the model, finished file (decoder + reader + count_entries) compared with the accepted subsequence; plus mtbl_writer_init on 6 kinds of pre-existing target; "
             "distinct_nontrivial = distinct sequences",
        evaluations=adds,
        floors={"c08.sequences": 4000, "c08.adds.refused.equal": 2000, "c08.adds.refused.proper-prefix": 2000, "c08.adds.refused.sign-trap-down(0x80->0x7f)": 300,
                "c08.adds.accepted.sign-trap-up(0x7f->0x80)": 300, "c08.adds.accepted.first-empty-key": 100, "c08.adds.accepted.first-key-ends-in-00": 300, "c08.multi_block_files": 500,
                "c08pre.targets.regular-file": 20, "c08pre.targets.dangling-symlink": 20, "c08pre.targets.directory": 20, "c08pre.targets.symlink-to-file": 20, **({"plain.c08big.cases": 5, "plain.c08big.key_plus_value_over_UINT32_MAX": 1} if th else {})},
        extra={"adds": adds, "refused_adds": refused})
