"""C17: mtbl_crc32c is the standard CRC-32C on every buffer, both implementations."""
import build as B, runner

LEVEL = "exploration"


def build(ctx):
    ctx.builddir = B.fresh_dir("c17")
    exes = {}
    for cfg in ("asan", "plain"):
        d = ctx.builddir + "/" + cfg
        objs = B.build_lib(cfg, d)
        exes["h_c17." + cfg] = B.build_harness(cfg, d, "h_c17." + cfg, ["h_c17.c"], objs, wraps=["my_crc32c_sse42_supported"])
    return exes


def run(ctx):
    exes = build(ctx)
    asan, plain = exes["h_c17.asan"], exes["h_c17.plain"]
    th = ctx.tier == "thorough"
    ctx.fan(asan, "rfc", 1)
    ctx.fan(asan, "lenalign", 16 if th else 2, chunk=1, timeout=300)
    ctx.fan(plain, "lenalign", 16 if th else 2, chunk=1, timeout=300, prefix="plain.")   # -O2 code paths as shipped
    ctx.fan(asan, "bytepos", 28 if th else 7, chunk=1)
    # the same workload in processes that run as an x86-64 CPU without SSE4.2 (the CPU-feature question is answered by a link-time shim):
    # the library's own start-up selection must install the table-driven implementation and mtbl_crc32c must still be right
    import os
    nosse = dict(runner.san_env()); nosse["VERIF_CPU_WITHOUT_SSE42"] = "1"
    ctx.fan(asan, "lenalign", 2, chunk=1, timeout=300, prefix="nosse.", env=nosse, tag="nosse-asan")
    ctx.fan(plain, "lenalign", 2, chunk=1, timeout=300, prefix="nosse.", env=nosse, tag="nosse-plain")
    # buffers of 2^31-5 .. 2^32+8005 bytes (sparse zero-page mappings, -O2 build) run beside the rest
    ctx.fan_parallel([((asan, "random", 20000 if th else 240), dict(timeout=60, max_workers=11)),
                      ((plain, "huge", 6 if th else 5), dict(chunk=1, timeout=900, max_workers=6, prefix="plain."))])
    # the CPU-feature test on four emulated CPU models (SSE4.1 x SSE4.2 bits of cpuid leaf 1 rewritten under CPUID faulting); skipped where the kernel/CPU lacks CPUID faulting
    ctx.fan(plain, "cpuid", 1, chunk=1, timeout=60, prefix="plain.")
    s = ctx.stats
    if s.get("plain.cpuid.faulting_unavailable_on_this_machine"):
        ctx.assumptions.append("CPUID faulting is not available here: the library's decoding of the cpuid feature bits was NOT exercised on emulated CPU models")
    ev = s.get("calls.mtbl_crc32c", 0)
    if not s.get("host.sse42_supported"):
        ctx.assumptions.append("host CPU lacks SSE4.2: the hardware implementation was NOT covered by this run")
    ctx.assumptions += ["reference = bit-at-a-time reflected CRC-32C in harness/h_c17.c, itself checked against the RFC 3720 vectors at start-up"]
    return ctx.finish(
        rule="buffers = {every length 0..1100 x every alignment 0..7 x content variants} + every byte value at every position mod 8 + RFC 3720 vectors + seeded random "
             "buffers; each is run through mtbl_crc32c, my_crc32c_slicing and (if the CPU has it) my_crc32c_sse42; distinct_nontrivial = distinct (length,alignment,variant) "
             "combinations with length >= 1 plus distinct random buffers",
        evaluations=ev,
        distinct=s.get("lenalign.combinations", 0) - 8 * (16 if th else 2) + len(ctx.hashes),
        floors={"lenalign.combinations": 1101 * 8 * 2, "bytepos.cells": 2048, "rfc3720.vectors": 5, "calls.slicing": 10000,
                "calls.forced_slicing": 70, "plain.huge.buffers_ge_2GiB": 5, "nosse.dispatch.runs_as_cpu_without_sse42": 4, "nosse.dispatch.selected.slicing": 4, "nosse.calls.mtbl_crc32c": 10000,
                **({"plain.huge.buffers_ge_32GiB": 1} if th else {})},
        exhaustive=False,
        extra={"cpu_models_emulated_for_the_feature_test": s.get("plain.cpuid.models_emulated", 0), "implementations_covered": ["mtbl_crc32c", "my_crc32c_slicing"] + (["my_crc32c_sse42"] if s.get("host.sse42_supported") else []),
               "exhaustive_subspace": "lengths 0..1100 x alignments 0..7 (per content variant)"})
