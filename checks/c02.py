import build as B, runner

LEVEL = "exploration"


def build(ctx):
    ctx.builddir = B.fresh_dir("c02")
    d = ctx.builddir + "/asan"
    objs = B.build_lib("asan", d)
    return {"h_reader": B.build_harness("asan", d, "h_reader", ["h_reader.c", "refdec.c"], objs)}


def run(ctx):
    exe = build(ctx)["h_reader"]
    th = ctx.tier == "thorough"
    ctx.fan(exe, "c02", 8000 if th else 400, timeout=120)
    s = ctx.stats
    lookups = s.get("lookups.get", 0) + s.get("lookups.get_prefix", 0) + s.get("lookups.get_range", 0)
    ctx.assumptions += ["oracle = sorted array + own bytewise comparator; a NULL iterator is accepted as 'no entries'",
                        "index separators are recovered with the independent decoder (harness/refdec.c)"]
    return ctx.finish(
        rule="per generated table the query set is derived from the table: every stored key (sampled above 250, always block-first/last keys), its predecessor/successor forms, "
             "proper prefixes, one-byte extensions, every index separator and its neighbours, the empty string, keys below the first and above the last; get and get_prefix for all, "
             "get_range for all pairs on small sets and seeded pairs otherwise; distinct_nontrivial = distinct tables (content+configuration hash)",
        evaluations=lookups,
        floors={"gen.models_with_separator_pairs": 40, "c02.tables": 250, "c02.tables_ge_3_blocks": 100, "lookups.get.exactly_on_separator": 200, "lookups.query_between_two_blocks": 200,
                "lookups.get.before_first": 100, "lookups.get.after_last": 100, "lookups.get_prefix.empty_query": 100, "lookups.get_range.inverted": 500,
                "lookups.get_range.equal_bounds": 100, "lookups.get.nonempty_answer": 5000, "lookups.get_range.nonempty_answer": 5000, "lookups.range_all_pairs_tables": 3},
        extra={"lookups": lookups})
