import build as B, runner

LEVEL = "fault_enumeration"


def build(ctx):
    ctx.builddir = B.fresh_dir("c20")
    d = ctx.builddir + "/asan"
    objs = B.build_lib("asan", d)
    exes = {"h_c20": B.build_harness("asan", d, "h_c20", ["h_c20.c"], objs, wraps=["write"])}
    if ctx.tier == "thorough":
        d2 = ctx.builddir + "/plain"
        objs2 = B.build_lib("plain", d2)
        exes["h_c20.plain"] = B.build_harness("plain", d2, "h_c20.plain", ["h_c20.c"], objs2, wraps=["write"])
    return exes


def run(ctx):
    exes = build(ctx)
    exe = exes["h_c20"]
    th = ctx.tier == "thorough"
    ctx.fan(exe, "single", 48 if th else 12, chunk=1, timeout=600)
    ctx.fan(exe, "multi", 10000 if th else 400, timeout=120)
    if th:
        # a single write request above 2^31 bytes answered with a short write of exactly 2^31 (4.5 GiB of disk, ~4 GiB of memory)
        ctx.fan(exes["h_c20.plain"], "bigwrite", 2, chunk=1, timeout=1200, max_workers=1, prefix="plain.")
    s = ctx.stats
    ctx.assumptions += ["write(2) outcomes are injected at link level (ld --wrap=write) for every write() call made by mtbl/writer.c; partial writes really write n bytes",
                        "a hard error is persistent only at the faulted call index (one-shot): a writer that silently retries and finishes is reported, as the statement forbids reporting success"]
    return ctx.finish(
        rule="fault plan = outcome per write() call index; single: every call index of a small table x {partial(1), partial(n-1), partial(n/2), EINTRx1, EINTRx3} compared byte-for-byte with the all-full reference "
             "+ every call index x hard error {EIO, ENOSPC, EBADF, return 0} in a forked child that must not finish normally; multi: seeded plans with per-call fault probability 0.1/0.5/0.9 and one-byte writes on "
             "small/medium, pooled/unpooled tables; distinct_nontrivial = distinct tables (x their plans counted in evaluations)",
        evaluations=s.get("plans", 0),
        floors={"single.tables": 10, "single.write_calls_enumerated": 100, "single.trailer.partial(1)": 4, "single.index-crc.EINTRx3": 4, "single.crc.partial(n-1)": 20,
                "single.payload.partial(n/2)": 20, "single.length-prefix.EINTRx1": 20, "hard.stopped": 100, "multi.plans.one-byte": 50, "multi.plans_pooled": 50,
                "multi.partial_writes": 1000, "multi.eintr": 500},
        exhaustive=False,
        extra={"exhaustive_subspace": "single faults at every write call index of each small table"})
