import os
import build as B, runner

LEVEL = "exploration"


def build(ctx):
    ctx.builddir = B.fresh_dir("c11")
    d = ctx.builddir + "/asan"
    objs = B.build_lib("asan", d)
    exes = {"h_c11": B.build_harness("asan", d, "h_c11", ["h_c11.c", "refdec.c", "refenc.c"], objs)}
    if ctx.tier == "thorough":
        d2 = ctx.builddir + "/plain"
        exes["h_c11.plain"] = B.build_harness("plain", d2, "h_c11.plain", ["h_c11.c", "refdec.c", "refenc.c"], B.build_lib("plain", d2))
    return exes


def run(ctx):
    exes = build(ctx)
    exe = exes["h_c11"]
    th = ctx.tier == "thorough"
    ctx.fan(exe, "selfcheck", 1, ["--aux", os.path.join(B.REPO, "t")])
    ctx.fan(exe, "files", 25000 if th else 800, timeout=120)
    ctx.fan(exe, "big", 9 if th else 3, chunk=1, timeout=900, max_workers=4)
    if th:   # foreign compressed blocks beyond what the library's writer can emit: zstd decompressing to > INT_MAX bytes, zlib inflating to > 2^32 bytes (about 7 GiB and 1 min each, -O2 build)
        ctx.fan(exes["h_c11.plain"], "bigz", 2, chunk=1, timeout=1800, max_workers=1, prefix="plain.")
    s = ctx.stats
    ctx.assumptions += ["well-formed = what harness/refenc.c emits (canonical varints, restart 0 present, separators in the legal interval) and harness/refdec.c reads back identically",
                        "codec self-checked against /repo/t/*.data and the real reader at start-up; disagreement makes the run inconclusive",
                        "the >4 GiB block is built sparsely with an uncompressed zero value; its CRC is computed with mtbl_crc32c (decided separately by C17)"]
    return ctx.finish(
        rule="generated content encoded by the independent encoder under random legal choices: version {1,2} x 6 compression types x restart density {every entry .. only the first} x sharing "
             "{maximal, random <= LCP, none} x block cuts {random, single-entry, one block} x separator drawn from the legal interval x index-block choices x foreign prefix; real reader compared on "
             "iteration, derived lookups, random seek histories and directed block-gap seek sequences; plus blocks above 4 GiB with 64-bit restart arrays; distinct_nontrivial = distinct (content, encoding) pairs",
        evaluations=s.get("c11.files", 0) + s.get("c11.big.files", 0),
        floors={"c11.files": 600, "selfcheck.sample_files_agree": 4, "selfcheck.agree.v1": 1, "c11.nonmaximal_shares": 5000, "c11.single_entry_blocks": 500,
                "c11.separator.last-key+00": 300, "c11.separator.shortest-separator": 50, "c11.separator.beyond-last-key": 100, "c11.directed_gap_sequences": 2000,
                "c11.big.files": 3, "c11.big.restart_points_above_4GiB": 4, "c11.big.straddling_blocks_32bit_restarts_over_4GiB": 1, "c11.big.entry_area_exactly_UINT32_MAX": 1, "c11.big.entry_with_suffix_plus_value_ge_2^32": 1, "c11.files_read_with_verify_checksums": 200, "c11.restart_density.permille_0": 50,
                "c11.restart_density.permille_1000": 50, **({"plain.c11.bigz.files": 2, "plain.c11.bigz.zlib_4c_doubling_has_a_step_between_2^32_and_block_size": 1} if th else {})},
        extra={"files_by_version_and_compression": {k[len("c11.files."):]: v for k, v in s.items() if k.startswith("c11.files.v")}})
