import build as B, runner

LEVEL = "exploration"


def build(ctx):
    ctx.builddir = B.fresh_dir("c04")
    d = ctx.builddir + "/asan"
    objs = B.build_lib("asan", d)
    exes = {"h_merger": B.build_harness("asan", d, "h_merger", ["h_merger.c", "refdec.c"], objs)}
    exes.update(B.build_tools("asan", d, objs, names=("mtbl_merge",)))
    exes["vmerge.so"] = B.build_dso(d, "vmerge.so", "vmerge_dso.c")
    return exes


def run(ctx):
    exes = build(ctx)
    th = ctx.tier == "thorough"
    ctx.fan(exes["h_merger"], "c04", 100000 if th else 3000, timeout=120)
    ctx.fan(exes["h_merger"], "c04t", 3000 if th else 60, ["--aux", exes["mtbl_merge"], "--aux2", exes["vmerge.so"]], timeout=120)
    s = ctx.stats
    ctx.assumptions += ["merge function = sorted multiset union of unique 8-byte ids: associative and commutative (no fold order demanded), multiplicity-sensitive (each source value folded exactly once is observable)",
                        "without a merge function and without dupsort, the order among equal keys is not specified: key groups are compared as multisets",
                        "user-defined sources free and re-allocate their key/value buffers on every call (stale use is an ASan report)"]
    return ctx.finish(
        rule="families of 0..12 sources (real tables and user-defined sources with buffer invalidation, duplicate keys inside user sources) over a shared key universe with layouts {random overlap, identical, disjoint, "
             "interleaved, nested}, the empty key in none/one/all sources, empty sources; modes {merge function, none, none+dupsort, merge function failing on a chosen multi-source key}; observed through mtbl_iter_next, "
             "mtbl_source_write + read back, and the real mtbl_merge tool with a multiset-merge DSO; distinct_nontrivial = distinct (family, mode)",
        evaluations=s.get("c04.cases", 0) + s.get("c04t.tool_runs", 0),
        floors={"c04.cases": 2000, "c04.mode.merge-function": 800, "c04.mode.no-merge-function": 200, "c04.mode.no-merge-function+dupsort": 300, "c04.failing_callback_cases": 100,
                "family.keys.multiplicity_3plus": 5000, "family.keys.multiplicity_all_sources": 2000, "family.cases_with_user_sources": 500, "family.cases_with_empty_key": 300,
                "family.empty_sources": 200, "family.sources.9": 50, "family.sources.12": 50, "c04.source_write_cases": 200, "c04t.tool_runs": 35, "c04.merge_callbacks": 10000},
        extra={"merge_callbacks": s.get("c04.merge_callbacks", 0), "merges_needed_sum_multiplicity_minus_1": s.get("c04.merges_needed", 0)})
