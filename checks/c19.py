import build as B, runner

LEVEL = "fault_enumeration"


def build(ctx):
    ctx.builddir = B.fresh_dir("c19")
    exes = {}
    for cfg in ("plain", "asan"):
        d = ctx.builddir + "/" + cfg
        objs = B.build_lib(cfg, d)
        exes["h_c19." + cfg] = B.build_harness(cfg, d, "h_c19." + cfg, ["h_c19.c", "refdec.c", "refenc.c"], objs, wraps=["mmap", "munmap"])
    return exes


def run(ctx):
    exes = build(ctx)
    th = ctx.tier == "thorough"
    plain, asan = exes["h_c19.plain"], exes["h_c19.asan"]
    ctx.fan(plain, "mut", 400 if th else 16, chunk=1, timeout=900)
    ctx.fan(plain, "tiny", 33, chunk=1, timeout=300)
    ctx.fan(plain, "random", 6000 if th else 100, timeout=120, closed_stdin_every=3)
    ctx.fan(asan, "mut", 24 if th else 4, chunk=1, timeout=900, prefix="asan.")
    ctx.fan(asan, "tiny", 33, chunk=3, timeout=300, prefix="asan.")
    s = ctx.stats
    ctx.assumptions += ["reads outside the file are observed as SIGSEGV/SIGBUS: the file's bytes are placed between two 8 GiB PROT_NONE regions (end-aligned and start-aligned runs); a wild read further than 8 GiB away that hits other mapped memory would go unnoticed",
                        "allowed outcomes: NULL, a reader, SIGABRT from an assertion"]
    outcomes = {k: v for k, v in s.items() if k.startswith("outcome.")}
    return ctx.finish(
        rule="fault space over valid seeds (writer-made v2, encoder-made v1/v2, compressed or not, with foreign prefix, empty table): every trailer field <- boundary value set (index offset: full set), magic swaps, "
             "index length prefix <- value set (varint / fixed32) and 1-byte corruptions of its first 10 bytes, truncations around {0,512,525,528,index offset,size}, head cuts with re-pointed index offset; all "
             "file lengths 512..544 x magic x index-offset set; seeded random files; each file opened with verify_checksums on/off under end- and start-aligned guard pages via init and init_fd; "
             "distinct_nontrivial = distinct seed/random files (mutations per seed are distinct by construction and counted in evaluations)",
        evaluations=s.get("opens", 0) + s.get("asan.opens", 0),
        floors={"mut.seeds": 12, "mut.seeds.v1": 3, "mut.seeds.v2": 6, "opens": 30000, "outcome.trailer-index-offset.NULL": 1000, "outcome.index-length-varint.NULL": 500,
                "outcome.index-length-fixed32.NULL": 200, "outcome.tiny-file.NULL": 5000, "outcome.intact-seed.reader": 40, "outcome.index-header-byte.assert-abort": 50,
                "outcome.consistent-index-length.NULL": 1000, "outcome.consistent-index-offset.NULL": 1000, "outcome.multi-field.NULL": 2000,
                "opens.verify1.end-aligned": 5000, "opens.verify0.start-aligned": 5000, "asan.opens": 5000},
        exhaustive=False,
        extra={"outcomes_by_mutation_class": outcomes,
               "exhaustive_subspace": "per seed: the listed single-field mutation sets and the consistent two-field forgeries (length prefix + bytes_index_block, index offset + bytes_index_block); all lengths 512..544 x 2 magics x value set x 3 fills"})
