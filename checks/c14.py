import build as B, runner

LEVEL = "exploration"
WRAPS = ["pthread_mutex_lock", "pthread_mutex_unlock", "pthread_cond_wait", "pthread_cond_signal"]


def build(ctx):
    ctx.builddir = B.fresh_dir("c14")
    d = ctx.builddir + "/tsan"
    objs = B.build_lib("tsan", d)
    return {"h_c14": B.build_harness("tsan", d, "h_c14", ["h_c14.c"], objs, wraps=WRAPS)}


def run(ctx):
    exe = build(ctx)["h_c14"]
    th = ctx.tier == "thorough"
    counters = {}
    scan = lambda se: runner.parse_tsan(se, counters)
    env = runner.tsan_env()
    ctx.fan(exe, "pool", 1500 if th else 256, chunk=1 if not th else 4, timeout=120, env=env, scan_stderr=scan)
    ctx.fan(exe, "reader", 1000 if th else 160, chunk=1 if not th else 4, timeout=120, env=env, scan_stderr=scan)
    ctx.fan(exe, "crc", 8 if th else 2, chunk=1, timeout=120, env=env, scan_stderr=scan)
    ctx.add_stats(counters)
    s = ctx.stats
    ctx.assumptions += ["ThreadSanitizer reports races only on executed access pairs and only understands synchronisation it intercepts (all pthread primitives used by mtbl/threadpool.c are intercepted)",
                        "fileset handles are not shared across threads (the API does not allow it) and are excluded",
                        "the delay layer (ld --wrap of lock/unlock/wait/signal) adds random yields and micro-sleeps but no synchronisation"]
    return ctx.finish(
        rule="process runs under -fsanitize=thread: (pool) 2-6 caller threads each with a pooled writer (1 KiB blocks, six compression types) and a pooled multi-chunk sorter sharing one pool of 1-4 threads, with and without delay "
             "injection; (reader) 4-12 threads on one open reader (six compression types, verify_checksums on/off, counter/run/random block contents) doing scans, get, get_prefix, get_range, seek storms through private iterators; (crc) concurrent mtbl_crc32c; "
             "every distinct TSan data-race report involving library frames is a violation; distinct_nontrivial = distinct workload instances",
        evaluations=s.get("pool.runs", 0) + s.get("reader.runs", 0) + s.get("crc.runs", 0),
        floors={"pool.runs": 200, "reader.runs": 120, "pool.block_jobs": 10000, "reader.ops": 200000, "pool.callers.6": 1, "pool.size.1": 1, "reader.verify.1": 5, "reader.content.runs": 20, "reader.content.random": 20},
        extra={"tsan_reports_by_kind": {k: v for k, v in s.items() if k.startswith("tsan.")}, "block_jobs_through_pool": s.get("pool.block_jobs", 0), "reader_ops": s.get("reader.ops", 0)})
