import build as B, runner

LEVEL = "exploration"


def build(ctx):
    ctx.builddir = B.fresh_dir("c01")
    d = ctx.builddir + "/asan"
    objs = B.build_lib("asan", d)
    exes = {"h_table": B.build_harness("asan", d, "h_table", ["h_table.c", "refdec.c"], objs)}
    exes.update(B.build_tools("asan", d, objs, names=("mtbl_dump", "mtbl_info")))
    d2 = ctx.builddir + "/plain"
    exes["h_table.plain"] = B.build_harness("plain", d2, "h_table.plain", ["h_table.c", "refdec.c"], B.build_lib("plain", d2))
    return exes


def run(ctx):
    exes = build(ctx)
    th = ctx.tier == "thorough"
    # beside the main fan: a table whose middle value has more than 2^31 bytes (snappy; thorough: none and zlib too), -O2 build
    ctx.fan_parallel([((exes["h_table"], "c01", 40000 if th else 3000, ["--aux", exes["mtbl_dump"]]), dict(timeout=120, closed_stdin_every=5, max_workers=14)),
                      ((exes["h_table.plain"], "bigvalue", 3 if th else 1), dict(chunk=1, timeout=900, max_workers=1))])
    # blocks (data and index) whose entry area ends within a few bytes of the builder's buffer capacity: 64 + 40 directed files under ASan
    ctx.fan(exes["h_table"], "edge", 104, timeout=120)
    s = ctx.stats
    ctx.assumptions += ["oracle = the generated strictly increasing sequence itself (sorted with the harness's own comparator)",
                        "block_restart_interval 0 and keys/values >= 4 GiB are outside the quantifier and not generated; values above 2 GiB only in the three-entry bigvalue tables"]
    return ctx.finish(
        rule="seeded generator: key shapes {tiny alphabet 00/ff/a/b, long shared prefix up to >16 KiB, random bytes, sequential, mixed}, values {empty..>16 KiB, larger than a block}, "
             "0..~3000 entries (thorough ~22000), writer configuration drawn from 6 compression types x level classes x block sizes x restart intervals x pool sizes x foreign prefix lengths; "
             "non-trivial = every generated case; distinct = distinct (content, configuration) hashes",
        evaluations=s.get("c01.files", 0),
        floors={"c01.files": 2500, "c01.entries_compared": 50000, "gen.key_ge_128": 50, "gen.value_ge_16k": 5, "gen.empty_key": 20,
                "gen.shared_prefix_ge_128": 50, "c01.files_pooled": 100, "dump.entries_compared": 1000, "dump.invocations.plain": 50, "bigvalue.snappy": 1, "edge.data_block_cases": 64, "edge.index_block_cases": 36, "gen.models_with_separator_pairs": 200,
                **({"bigvalue.none": 1, "bigvalue.zlib": 1} if th else {})},
        extra={"dump_invocations": sum(v for k, v in s.items() if k.startswith("dump.invocations."))})
