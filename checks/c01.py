import build as B, runner

LEVEL = "exploration"


def build(ctx):
    ctx.builddir = B.fresh_dir("c01")
    d = ctx.builddir + "/asan"
    objs = B.build_lib("asan", d)
    exes = {"h_table": B.build_harness("asan", d, "h_table", ["h_table.c", "refdec.c"], objs)}
    exes.update(B.build_tools("asan", d, objs, names=("mtbl_dump", "mtbl_info")))
    return exes


def run(ctx):
    exes = build(ctx)
    th = ctx.tier == "thorough"
    ctx.fan(exes["h_table"], "c01", 40000 if th else 3000, ["--aux", exes["mtbl_dump"]], timeout=120, closed_stdin_every=5)
    s = ctx.stats
    ctx.assumptions += ["oracle = the generated strictly increasing sequence itself (sorted with the harness's own comparator)",
                        "block_restart_interval 0 and keys/values >= 4 GiB are outside the quantifier and not generated"]
    return ctx.finish(
        rule="seeded generator: key shapes {tiny alphabet 00/ff/a/b, long shared prefix up to >16 KiB, random bytes, sequential, mixed}, values {empty..>16 KiB, larger than a block}, "
             "0..~3000 entries (thorough ~22000), writer configuration drawn from 6 compression types x level classes x block sizes x restart intervals x pool sizes x foreign prefix lengths; "
             "non-trivial = every generated case; distinct = distinct (content, configuration) hashes",
        evaluations=s.get("c01.files", 0),
        floors={"c01.files": 2500, "c01.entries_compared": 50000, "gen.key_ge_128": 50, "gen.value_ge_16k": 5, "gen.empty_key": 20,
                "gen.shared_prefix_ge_128": 50, "c01.files_pooled": 100, "dump.entries_compared": 1000, "dump.invocations.plain": 50},
        extra={"dump_invocations": sum(v for k, v in s.items() if k.startswith("dump.invocations."))})
