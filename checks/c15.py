"""C15: compression round trip for every algorithm, level and buffer."""
import build as B, runner

LEVEL = "exploration"


def build(ctx):
    ctx.builddir = B.fresh_dir("c15")
    d = ctx.builddir + "/asan"
    objs = B.build_lib("asan", d)
    return {"h_c15": B.build_harness("asan", d, "h_c15", ["h_c15.c"], objs)}


def run(ctx):
    exe = build(ctx)["h_c15"]
    th = ctx.tier == "thorough"
    ctx.fan(exe, "small", 65 * 5, timeout=120)                      # every length 0..64 x 5 contents
    ctx.fan(exe, "sized", 20000 if th else 400, timeout=300)
    ctx.fan(exe, "names", 1)
    ctx.fan(exe, "badtype", 4)
    ctx.fan(exe, "hugebuf", 11, chunk=1, timeout=600)    # 2 GiB .. 8 GiB lazily mapped buffers: refusals must be clean, the 2 GiB + 4 KiB snappy (and, thorough, zlib) round trip must be exact
    # incompressible 0.5..2 GiB buffers (the compressed form is the large one): zlib at 2^30 and 560 MiB in quick, eleven (algorithm, level, size) combinations in thorough
    ctx.fan(exe, "hugerand", 11 if th else 2, chunk=1, timeout=900, max_workers=3)
    s = ctx.stats
    ctx.assumptions += ["a failing compress call is allowed by the property and only counted", "empty buffers are passed as a valid pointer with length 0", "buffers of 2 GiB and more are only probed for lz4/lz4hc/zstd, where the answer is cheap; snappy and zlib: one 2 GiB + 4 KiB zero buffer each and the refusals at 4 GiB", "incompressible buffers above 4 MiB only in the hugerand cases (0.5 .. 2 GiB)"]
    return ctx.finish(
        rule="buffers: every length 0..64 x {zeros, 0xff, counter, abab, random} (exhaustive), then seeded structured/random buffers up to %s; each buffer x 5 algorithms x "
             "{default path, levels below min .. above max}; distinct_nontrivial = distinct non-empty buffers (hash of content)" % ("4 MiB" if th else "1 MiB"),
        evaluations=s.get("roundtrips", 0),
        floors={"small.buffers": 325, "roundtrips": 5000, "names.roundtrip": 6, "names.refused": 10, "names.neighbours.not-a-name": 10000, "names.neighbours.name-up-to-case": 100, "badtype.calls": 4, "huge.buffers": 11, "hugerand.zlib.compressed_form_ge_1GiB": 1, "hugerand.zlib.roundtrip_exact": 2},
        exhaustive=False,
        extra={"exhaustive_subspace": "lengths 0..64 x 5 contents x 5 algorithms x %d levels" % (19 if th else 6)})
