"""C16: varint / fixed codecs are exact inverses in standard form (exhaustive over 2^32 in thorough)."""
import build as B, runner

LEVEL = "exploration"


def build(ctx):
    ctx.builddir = B.fresh_dir("c16")
    exes = {}
    for cfg in ("asan", "plain"):
        d = ctx.builddir + "/" + cfg
        objs = B.build_lib(cfg, d)
        exes["h_c16." + cfg] = B.build_harness(cfg, d, "h_c16." + cfg, ["h_c16.c"], objs)
    return exes


def run(ctx):
    exes = build(ctx)
    asan, plain = exes["h_c16.asan"], exes["h_c16.plain"]
    thorough = ctx.tier == "thorough"
    # 32-bit ranges on the plain build (2^20 values per case)
    if thorough:
        ctx.fan(plain, "v32range", 4096, ["--param", "20"], timeout=60)          # all 2^32 values
    else:
        # quick: 64 full 2^20 ranges spread over the space, incl. first and last
        import random
        rnd = random.Random(ctx.seed)
        picks = sorted(set([0, 1, 127, 128, 2047, 2048, 4095] + [rnd.randrange(4096) for _ in range(57)]))
        ctx.fan(plain, "v32range", 0, ["--param", "20"], timeout=60, cases=picks)
    ctx.fan(asan, "v32heap", 400 if thorough else 40, timeout=60)
    ctx.fan(asan, "v64", 2000 if thorough else 60, timeout=60)
    ctx.fan(asan, "fixed", 32 if thorough else 4, timeout=60)
    ctx.fan(asan, "trunc", 64 if thorough else 8, timeout=60)
    ctx.fan(plain, "hugebound", 16 if thorough else 2, timeout=60)      # length_packed with bounds 2^31 .. 2^33+12 over a lazily mapped region
    s = ctx.stats
    n32 = s.get("values32.range_enumerated", 0)
    evaluations = n32 + s.get("values64.heap", 0) + s.get("fixed.values", 0) * 16 + s.get("trunc.length_packed_terminated", 0)
    exhaustive32 = thorough and n32 == 2 ** 32 and not ctx.violations
    ctx.assumptions += ["reference = textbook LEB128 (divide by 128) and explicit little-endian byte assembly written in the harness",
                        "ASan red zones around exact-size heap buffers detect any access beyond the encoding"]
    return ctx.finish(
        rule="every 32-bit value in the enumerated ranges (distinct by construction) plus boundary/walking/random 64-bit values in exact-size "
             "ASan heap buffers; non-trivial = encodes to >= 2 bytes or sits on a 7k-bit boundary; distinct_nontrivial counts range-enumerated values >= 128 "
             "(conservative: heap/random values are not added)",
        evaluations=evaluations,
        distinct=max(0, n32 - 128 * (1 if n32 else 0)),
        floors={"values32.range_enumerated": 2 ** 20, "hugebound.calls_bound_ge_2^32": 1000, "values64.heap": 1000, "fixed.values": 100, "trunc.overlong_decode": 64,
                "boundary.2^7k+-1": 9},
        exhaustive=exhaustive32,
        extra={"exhaustive_subspace": "all 2^32 32-bit values" if exhaustive32 else "none (quick tier samples 2^20-value ranges)",
               "alignments": 8})
