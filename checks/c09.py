import build as B, runner

LEVEL = "translation_validation"


def build(ctx):
    ctx.builddir = B.fresh_dir("c09")
    d = ctx.builddir + "/asan"
    objs = B.build_lib("asan", d)
    exes = {"h_table": B.build_harness("asan", d, "h_table", ["h_table.c", "refdec.c"], objs)}
    exes.update(B.build_tools("asan", d, objs, names=("mtbl_dump", "mtbl_info")))
    d2 = ctx.builddir + "/plain"
    exes["h_table.plain"] = B.build_harness("plain", d2, "h_table.plain", ["h_table.c", "refdec.c"], B.build_lib("plain", d2))
    return exes


def run(ctx):
    exes = build(ctx)
    th = ctx.tier == "thorough"
    # beside the main fan: one writer-made block whose entry area is exactly UINT32_MAX bytes (thorough: UINT32_MAX-1, +1, +4096 too), -O2 build
    ctx.fan_parallel([((exes["h_table"], "c09", 40000 if th else 3000), dict(timeout=120, max_workers=14)),
                      ((exes["h_table.plain"], "bigblock", 4), dict(chunk=1, timeout=900, max_workers=2, cases=None if th else [1]))])
    s = ctx.stats
    ctx.assumptions += ["trusted: harness/refdec.c (own varint, CRC-32C, block parser; zlib/snappy/lz4/zstd called directly)",
                        "the converse block-size rule ('must close as soon as the estimate reaches the limit') is not stated and not demanded",
                        "restart cadence is demanded on data blocks; on the index block only validity and maximal sharing are demanded"]
    rules = {k[len("c09.rule."):]: v for k, v in s.items() if k.startswith("c09.rule.")}
    return ctx.finish(
        rule="every file emitted by the real writer for the C01 generator is decoded by the independent decoder and validated rule by rule; distinct = distinct (content, configuration) hashes",
        evaluations=s.get("c09.files_validated", 0),
        floors={"gen.models_with_separator_pairs": 200, "c09.files_validated": 2500, "c09.multi_block_files": 200, "c09.separators_checked": 2000, "c09.separators_shortened": 200,
                "c09.rule.block_closed_only_at_limit": 2000, "c09.rule.multi_entry_block_within_size": 2000, "c09.rule.restart_cadence": 50000,
                "c09.multibyte_shared_varint": 50, "c09.multibyte_vlen_varint": 200, "c09.single_entry_blocks": 50, "c09.files_with_foreign_prefix": 100, "bigblock.restart_width.32": 1,
                **({"bigblock.restart_width.64": 2, "bigblock.cases": 4} if th else {})},
        extra={"programs": s.get("c09.files_validated", 0), "disagreements_checked": sum(rules.values()), "rule_checks": rules,
               "blocks": s.get("c09.blocks", 0), "entries": s.get("c09.entries", 0), "restart_points": s.get("c09.restart_points", 0)})
