import build as B, runner

LEVEL = "exploration"


def build(ctx):
    ctx.builddir = B.fresh_dir("c10")
    d = ctx.builddir + "/asan"
    objs = B.build_lib("asan", d)
    exes = {"h_table": B.build_harness("asan", d, "h_table", ["h_table.c", "refdec.c"], objs)}
    exes.update(B.build_tools("asan", d, objs, names=("mtbl_dump", "mtbl_info")))
    d2 = ctx.builddir + "/plain"
    objs2 = B.build_lib("plain", d2)
    exes["h_table.plain"] = B.build_harness("plain", d2, "h_table.plain", ["h_table.c", "refdec.c"], objs2)
    return exes


def run(ctx):
    exes = build(ctx)
    th = ctx.tier == "thorough"
    # the > 4 GiB table (every byte counter crosses 2^32) runs beside the main fan: -O2 build in quick (≈10 s), ASan too in thorough
    big = [((exes["h_table.plain"], "big", 2 if th else 1), dict(chunk=1, timeout=900, prefix="plain.", max_workers=2, tag="big.plain"))]
    if th:
        big.append(((exes["h_table"], "big", 2), dict(chunk=1, timeout=900, max_workers=2, tag="big.asan")))   # own work directory: both builds name their file big-<case>.mtbl
    ctx.fan_parallel([((exes["h_table"], "c10", 40000 if th else 1500, ["--aux", exes["mtbl_info"]]), dict(timeout=120, max_workers=14))] + big)
    s = ctx.stats
    ctx.assumptions += ["the > 4 GiB table is checked against frame lengths read with pread and an own varint decoder (its 4 GiB of CRCs are not recomputed)", "truth = counts and byte extents computed by harness/refdec.c from the file bytes, cross-checked with what the harness fed to the writer"]
    return ctx.finish(
        rule="C01 generator plus interleaved refused adds in ~1/3 of the cases; each file: 10 metadata accessors vs truth from the bytes, mtbl_info parsed on a sampled subset; "
             "distinct = distinct (content, configuration) hashes",
        evaluations=s.get("c10.files", 0),
        floors={"c10.files": 1000, "c10.files.empty_table": 20, "c10.files.foreign_prefix": 100, "c10.files.pooled_multiblock": 50,
                "c10.files.with_refused_adds": 100, "c10.mtbl_info_runs": 50, "c10.fields_compared.bytes_index_block": 1000, "plain.big.tables_over_4GiB": 1})
