import subprocess
import build as B, runner

LEVEL = "exploration"
SCHED_WRAPS = ["pthread_mutex_lock", "pthread_mutex_unlock", "pthread_mutex_init", "pthread_mutex_destroy", "pthread_cond_wait", "pthread_cond_signal",
               "pthread_cond_broadcast", "pthread_cond_init", "pthread_cond_destroy", "pthread_create", "pthread_join"]
DELAY_WRAPS = ["pthread_mutex_lock", "pthread_mutex_unlock", "pthread_cond_wait", "pthread_cond_signal"]


def sym_offsets(exe):
    out = subprocess.run(["nm", exe], stdout=subprocess.PIPE, text=True).stdout
    addr = {}
    for l in out.splitlines():
        p = l.split()
        if len(p) == 3 and p[2] in ("main", "thread_worker", "result_worker"):
            addr[p[2]] = int(p[0], 16)
    if not all(k in addr for k in ("main", "thread_worker", "result_worker")):
        raise B.BuildError("cannot locate thread_worker/result_worker in the symbol table of %s" % exe)
    return [str(addr["thread_worker"] - addr["main"]), str(addr["result_worker"] - addr["main"])]


def build(ctx):
    ctx.builddir = B.fresh_dir("c13")
    exes = {}
    d = ctx.builddir + "/asan"
    objs = B.build_lib("asan", d)
    exes["h_c13.sched"] = B.build_harness("asan", d, "h_c13.sched", ["h_c13.c"], objs, wraps=SCHED_WRAPS)
    exes["h_c13.native"] = B.build_harness("asan", d, "h_c13.native", ["h_c13.c"], objs, wraps=DELAY_WRAPS, extra=["-DC13_NATIVE"])
    d2 = ctx.builddir + "/tsan"
    objs2 = B.build_lib("tsan", d2)
    exes["h_c13.tsan"] = B.build_harness("tsan", d2, "h_c13.tsan", ["h_c13.c"], objs2, wraps=DELAY_WRAPS, extra=["-DC13_NATIVE"])
    return exes


def run(ctx):
    exes = build(ctx)
    th = ctx.tier == "thorough"
    sched = exes["h_c13.sched"]
    off = sym_offsets(sched)
    aux = ["--aux", off[0], "--aux2", off[1]]
    ctx.fan(sched, "raw", 200000 if th else 6400, aux, timeout=3)
    ctx.fan(sched, "writer", 60000 if th else 2400, aux, timeout=3)
    ctx.fan(sched, "sorter", 60000 if th else 2400, aux, timeout=3)
    # native threads with delay injection: ASan build, and a TSan pass (reports there are C14's concern; here only results and hangs)
    native = not ctx.violations       # a deadlock already witnessed under the scheduler would only make real threads hang until their watchdog
    if not native:
        ctx.stats["native.skipped_because_scheduler_found_violations"] = 1
    for sub, n in (("raw", 100), ("writer", 60), ("sorter", 60)) if native else ():
        ctx.fan(exes["h_c13.native"], sub, n * (25 if th else 1), timeout=15, chunk=4, prefix="native.")
    for sub, n in (("raw", 40), ("writer", 24), ("sorter", 24)) if native else ():
        ctx.fan(exes["h_c13.tsan"], sub, n * (10 if th else 1), timeout=30, chunk=2, prefix="tsan.", env=runner.tsan_env())
    s = ctx.stats
    ctx.assumptions += ["the controlled scheduler serialises at synchronisation calls, which covers all behaviours of a data-race-free program (race freedom itself is C14's job)",
                        "'close/destroy calls return' is decided as bounded progress: every explored schedule terminates, and an empty enabled set with unfinished threads is a deadlock; no unbounded liveness claim",
                        "schedules are sampled (random walk, sticky random, PCT with depth 1-3), not enumerated; spurious wake-ups are injected in half of the schedules",
                        "a wall-clock watchdog on native runs is inconclusive, never a violation"]
    return ctx.finish(
        rule="schedule = sequence of thread choices at the synchronisation points of the real threadpool/writer/sorter code; 8 schedules per scenario instance; scenarios: raw pool (0-40 jobs, pool 1-6, 1-3 ordered/unordered "
             "result handlers, 1-2 dispatcher threads, job bodies with 0-3 extra scheduling points), pooled writer (12-70 entries in 1 KiB blocks, all configurations, optionally two writers sharing a pool from two threads), pooled "
             "multi-chunk sorter (iterate / sorter_write / destroy without iterating); plus native-thread runs with delay injection under ASan and TSan; distinct_nontrivial = distinct schedule traces (hash of the choice sequence)",
        evaluations=s.get("schedules", 0) + s.get("native.schedules", 0) + s.get("tsan.schedules", 0),
        floors={"schedules": 10000, "schedules.raw": 6000, "schedules.writer": 2000, "schedules.sorter": 2000, "sched.context_switches": 100000, "sched.spurious_wakeups": 500,
                "raw.handlers.ordered": 500, "raw.handlers.unordered": 500, "raw.dispatchers.2": 200, "raw.zero_jobs": 20, "raw.pool_max.1": 100,
                "sorter.mode.destroy-without-iterating": 100, "writer.two_writers_sharing_one_pool": 100, "schedules.policy.PCT": 1000, "native.schedules": 200, "tsan.schedules": 80},
        extra={"schedules_run": s.get("schedules", 0), "distinct_schedule_hashes": len(ctx.hashes), "scheduling_points": s.get("sched.points", 0), "context_switches": s.get("sched.context_switches", 0),
               "spurious_wakeups_injected": s.get("sched.spurious_wakeups", 0), "max_live_workers_seen": s.get("max.live_workers_seen", 0), "results_delivered": s.get("raw.results_delivered", 0)})
