import build as B, runner

LEVEL = "exploration"


def build(ctx):
    ctx.builddir = B.fresh_dir("c03")
    d = ctx.builddir + "/asan"
    objs = B.build_lib("asan", d)
    return {"h_reader": B.build_harness("asan", d, "h_reader", ["h_reader.c", "refdec.c"], objs)}


def run(ctx):
    exe = build(ctx)["h_reader"]
    th = ctx.tier == "thorough"
    ctx.fan(exe, "c03x", 400 if th else 24, chunk=1, timeout=600)
    ctx.fan(exe, "c03h", 25000 if th else 500, timeout=120)
    s = ctx.stats
    cells = {k: v for k, v in s.items() if k.startswith("matrix.")}
    need = []
    for kind in ("iter", "get_range", "get_prefix", "get"):
        for st in ("fresh", "sought-unread", "mid", "exhausted", "at-block-first", "at-block-last"):
            if kind == "get" and st in ("mid", "at-block-first"):
                continue
            for rel in (("no-current", "past-end") if st in ("fresh", "sought-unread", "exhausted") else ("key-just-returned", "past-end")):
                need.append("matrix.%s.%s.%s" % (kind, st, rel))
    for rel in ("same-run-forward", "same-run-backward", "later-run-same-block", "earlier-run-same-block", "earlier-block", "later-block"):
        need.append("matrix.iter.mid." + rel)
        need.append("matrix.get_range.mid." + rel)
    floors = {k: 1 for k in need}
    floors.update({"seek_checks": 100000, "histories": 1000, "monitor.buffer_stability_checks": 100000, "history.seek_after_exhaustion": 100,
                   "history.ops_with_other_iterators_open": 10000, "history.seek_target.key-just-returned": 200})
    ctx.assumptions += ["seeks before the start of a bounded iterator's range are outside the statement and never issued",
                        "seek keys are always private copies (passing a pointer obtained from next back into seek is treated as API misuse)"]
    return ctx.finish(
        rule="part 1: small layouts (12-48 entries, 3-6 blocks of 1 KiB, restart interval cycling over {1,2,3,4,7,16}, with/without 13 foreign bytes, every 5th zlib): for 6 iterator bounds "
             "the full product (way of reaching a position) x (target) is executed, seek then next x3 compared with the model; part 2: random histories of 40-200 ops on up to 4 interleaved "
             "iterators of larger/compressed tables with the buffer-stability monitor; distinct_nontrivial = distinct tables",
        evaluations=s.get("seek_checks", 0) + s.get("history.ops", 0),
        floors=floors,
        exhaustive=False,
        extra={"seek_checks": s.get("seek_checks", 0), "matrix_cells_nonzero": len(cells),
               "exhaustive_subspace": "(position,target) product per small layout and iterator bound"})
