import build as B, runner

LEVEL = "fault_enumeration"


def build(ctx):
    ctx.builddir = B.fresh_dir("c12")
    d = ctx.builddir + "/asan"
    objs = B.build_lib("asan", d)
    exes = {"h_c12": B.build_harness("asan", d, "h_c12", ["h_c12.c", "refdec.c"], objs)}
    exes.update(B.build_tools("asan", d, objs, names=("mtbl_verify",)))
    return exes


def run(ctx):
    exes = build(ctx)
    th = ctx.tier == "thorough"
    aux = ["--aux", exes["mtbl_verify"]]
    ctx.fan(exes["h_c12"], "intact", 3000 if th else 300, aux, timeout=120)
    ctx.fan(exes["h_c12"], "small", 8 * (48 if th else 4), aux, chunk=1, timeout=5400)   # 8 slices per file; the largest thorough slice (40000 faults) takes about 14 minutes alone on the idle machine
    ctx.fan(exes["h_c12"], "seeded", 800 if th else 32, aux, chunk=1, timeout=600)
    s = ctx.stats
    ctx.assumptions += ["fault classes are those CRC-32C is guaranteed to detect: 1-3 flipped bits and bursts <= 32 bits confined to one block's crc field + stored bytes (length prefixes are outside the statement)",
                        "block extents come from harness/refdec.c; an abort (assert) of the tool or the reader counts as 'not accepted'"]
    return ctx.finish(
        rule="fault = XOR mask inside one block's (crc || stored bytes): small files: every single-bit flip of every data block and the index (exhaustive); larger/compressed files: seeded double/triple-bit and "
             "burst<=32 faults hitting first/last/middle/index blocks; each fault is observed by the real mtbl_verify (all seeded faults, a sample + all crc-field bits of the exhaustive set) and by a forked "
             "verifying reader through iterate/get/get_prefix/get_range/seek; distinct_nontrivial = distinct files (faults per file are distinct by construction and counted in evaluations)",
        evaluations=s.get("faults", 0),
        floors={"small.files": 3, "small.single_bit_flips_enumerated": 10000, "seeded.files": 20, "intact.files": 200, "intact.empty_tables": 1,
                "faults.tool.double-bit.index": 50, "faults.tool.triple-bit.first": 50, "faults.tool.burst<=32.last": 50, "faults.reader.single-bit.index": 300,
                "detected.reader.get.process-stopped": 500, "detected.reader.get_range.process-stopped": 500, "detected.reader.iter+seek-past+seek-back.process-stopped": 300, "detected.verify_tool.reports-failed": 500,
                "detected.verify_tool.abort-at-open": 50, "tool.command_line.intact-file-first": 300, "tool.command_line.intact-file-last": 100,
                "faults.reader_option_calls.pattern1": 1000, "faults.reader_option_calls.pattern3": 1000},
        exhaustive=False,
        extra={"exhaustive_subspace": "all single-bit flips of every block (crc field + stored bytes) of each 'small' file counted under small.files_every_bit (files above 320 000 single-bit faults are strided and counted separately)",
               "detections_by_path": {k: v for k, v in s.items() if k.startswith("detected.")}})
