import build as B, runner

LEVEL = "exploration"


def build(ctx):
    ctx.builddir = B.fresh_dir("c07")
    d = ctx.builddir + "/asan"
    objs = B.build_lib("asan", d)
    return {"h_c07": B.build_harness("asan", d, "h_c07", ["h_c07.c"], objs, wraps=["stat", "clock_gettime"])}


def run(ctx):
    exe = build(ctx)["h_c07"]
    th = ctx.tier == "thorough"
    ctx.fan(exe, "c07", 50000 if th else 4000, timeout=120)
    s = ctx.stats
    ctx.assumptions += ["time is the harness's virtual CLOCK_MONOTONIC (strictly increasing per call); setfile versions get explicit, strictly increasing mtimes and a new inode (rename)",
                        "every stat(setfile) made by libmy/my_fileset.c is one reload attempt (the one inside mtbl_fileset_init's existence assertion is excluded)",
                        "the reload rule is a deadline: attempts that come earlier than due are never flagged",
                        "setfiles never name the same file twice; iterators are closed before their handle is destroyed; handles are not shared across threads"]
    return ctx.finish(
        rule="random histories of 20-120 actions (thorough 160) over 1-5 handles (original + dups with intervals {0,1,5,NEVER}, filename/reader filters, merge fn or dupsort), 6 table files created/replaced/deleted, setfile rewrites "
             "(relative/absolute names, any order, missing and non-table names), virtual clock advances, reload/reload_now, iterators of all kinds opened/advanced/sought/closed, handles destroyed in any order; every 8th history starts "
             "with a scripted opening (dup + reload_now through both handles around a change; reload_now deferred by an open iterator; time passing); distinct_nontrivial = distinct action traces",
        evaluations=s.get("history.actions", 0),
        floors={"histories": 3000, "events.stat_setfile": 5000, "events.reload_changed_view": 1500, "events.reload_now_deferred": 300, "p2.deadline_checks": 5000,
                "histories.with_iterator_alive_across_setfile_change": 300, "p4.ops_on_iterator_older_than_setfile": 1000, "actions.destroy_original": 50, "actions.dup": 500,
                "actions.reload_now": 1000, "histories.with_tables_in_a_sibling_directory": 500, "histories.fileset_opened_by_a_name_relative_to_the_working_directory": 500, "actions.setfile_line_absolute_outside_setfile_directory": 1000, "histories.max_handles.3": 50, "histories.scripted.1": 40, "histories.scripted.2": 40, "ops.next.success": 20000},
        extra={"reload_attempts_observed": s.get("events.reload_attempts", 0), "attempts_that_changed_the_view": s.get("events.reload_changed_view", 0),
               "deferred_reload_nows": s.get("events.reload_now_deferred", 0), "actions_by_type": {k[len("actions."):]: v for k, v in s.items() if k.startswith("actions.")}})
