import build as B, runner

LEVEL = "exploration"


def build(ctx):
    ctx.builddir = B.fresh_dir("c05")
    d = ctx.builddir + "/asan"
    objs = B.build_lib("asan", d)
    exes = {"h_merger": B.build_harness("asan", d, "h_merger", ["h_merger.c", "refdec.c"], objs)}
    exes.update(B.build_tools("asan", d, objs, names=("mtbl_merge",)))
    exes["vmerge.so"] = B.build_dso(d, "vmerge.so", "vmerge_dso.c")
    return exes


def run(ctx):
    exes = build(ctx)
    th = ctx.tier == "thorough"
    exe = exes["h_merger"]
    ctx.fan(exe, "c05l", 8000 if th else 300, timeout=120)
    ctx.fan(exe, "c05x", 1500 if th else 56, chunk=1 if not th else None, timeout=600)
    ctx.fan(exe, "c05h", 30000 if th else 500, timeout=120)
    s = ctx.stats
    lookups = s.get("lookups.get", 0) + s.get("lookups.get_prefix", 0) + s.get("lookups.get_range", 0)
    need = ["matrix.iter.mid.key-just-returned", "matrix.iter.mid.forward", "matrix.iter.mid.backward", "matrix.iter.mid.past-end", "matrix.iter.exhausted.no-current",
            "matrix.iter.fresh.no-current", "matrix.iter.sought-unread.no-current", "matrix.get_range.mid.key-just-returned", "matrix.get_range.mid.backward",
            "matrix.get_prefix.mid.forward", "matrix.get.mid.key-just-returned", "matrix.get_range.exhausted.no-current"]
    floors = {k: 1 for k in need}
    floors.update({"seek_checks": 100000, "histories": 1000, "c05.mode.dupsort": 100, "c05.mode.merge-function": 500, "lookups.get.nonempty_answer": 5000,
                   "lookups.get_range.inverted": 300, "history.seek_after_exhaustion": 100, "history.seek_target.key-just-returned": 200,
                   "family.keys.multiplicity_3plus": 2000, "family.cases_with_user_sources": 100, "monitor.buffer_stability_checks": 100000})
    ctx.assumptions += ["oracle = one table holding the merged content (merge-function mode) or the flat (key, value)-sorted union (dupsort mode, where the model position is (key, rank among equals))",
                        "seek targets are never below the start of a bounded iterator's range"]
    return ctx.finish(
        rule="source families as in C04; merger source checked with (l) derived query sets for get/get_prefix/get_range incl. the first/last key of every source, (x) the full (position,target) product on small "
             "families of 2-4 sources with multi-source keys, (h) random 40-200 op histories on up to 4 interleaved merger iterators with the buffer-stability monitor; distinct_nontrivial = distinct (family, suite)",
        evaluations=lookups + s.get("seek_checks", 0) + s.get("history.ops", 0),
        floors=floors,
        extra={"lookups": lookups, "seek_checks": s.get("seek_checks", 0)})
