import build as B, runner

LEVEL = "exploration"


def build(ctx):
    ctx.builddir = B.fresh_dir("c06")
    d = ctx.builddir + "/asan"
    objs = B.build_lib("asan", d)
    return {"h_sorter": B.build_harness("asan", d, "h_sorter", ["h_sorter.c"], objs, wraps=["mkstemp"])}


def run(ctx):
    exe = build(ctx)["h_sorter"]
    th = ctx.tier == "thorough"
    ctx.fan(exe, "c06", 40000 if th else 1000, timeout=40)
    s = ctx.stats
    ctx.assumptions += ["needs the MTBL_VERIF hook (MIN_SORTER_MEMORY 1) so that kilobyte inputs split into many chunks",
                        "spill deadline uses the loosest reading: payload bytes (key+value) buffered since the last observed mkstemp must stay below max_memory; checked after every add when spills are synchronous (no worker threads), "
                        "and as a lower bound on the number of spill files in every mode after all jobs are joined",
                        "merge function = multiset union of unique ids (see C04)"]
    return ctx.finish(
        rule="add sequences of 0..900 (thorough 3000) entries over key universes of varying duplicate density in orders {random, sorted, reverse, all-equal, dups adjacent, dups spread}, memory limits from 1 byte (one entry per chunk) "
             "to everything in memory, pools {none,0,1,2,4,8}, output through the iterator (full / abandoned), mtbl_sorter_write + read back; mkstemp interposed to observe every spill; distinct_nontrivial = distinct (input, limit, pool)",
        evaluations=s.get("c06.sorts", 0),
        floors={"c06.sorts": 800, "c06.chunks.1": 100, "c06.chunks.2-4": 60, "c06.chunks.5-20": 100, "c06.chunks.>20": 100, "c06.cases_duplicates_across_chunks": 200,
                "c06.cases_with_empty_key": 100, "c06.empty_input": 5, "c06.pool.8": 50, "c06.pool.0": 50, "c06.out.sorter_write": 120, "c06.out.sorter_write_into_writer_on_the_same_pool": 20, "c06.out.iter_abandoned": 120,
                "c06.spill_deadline_checks": 100000, "c06.post_iteration_refusal_checks": 700, "c06.order.all-equal-keys": 100, "c06.failing_merge.cases": 10, "c06.failing_merge_pooled.cases": 3, "c06.temp_dir_name_with_percent_signs": 300},
        extra={"spills_observed": s.get("c06.spills_observed", 0)})
