import build as B, runner

LEVEL = "exploration"


def build(ctx):
    ctx.builddir = B.fresh_dir("c06")
    d = ctx.builddir + "/asan"
    objs = B.build_lib("asan", d)
    exes = {"h_sorter": B.build_harness("asan", d, "h_sorter", ["h_sorter.c"], objs, wraps=["mkstemp"])}
    # the library as shipped (hook off, MIN_SORTER_MEMORY 10 MiB) for the minimum-clamp cases, and an -O2 build for the > 2 GiB entry
    d2 = ctx.builddir + "/off"
    exes["h_sorter.off"] = B.build_harness("off", d2, "h_sorter.off", ["h_sorter.c"], B.build_lib("off", d2), wraps=["mkstemp"])
    if ctx.tier == "thorough":
        d3 = ctx.builddir + "/plain"
        exes["h_sorter.plain"] = B.build_harness("plain", d3, "h_sorter.plain", ["h_sorter.c"], B.build_lib("plain", d3), wraps=["mkstemp"])
    return exes


def run(ctx):
    exes = build(ctx)
    exe = exes["h_sorter"]
    th = ctx.tier == "thorough"
    calls = [((exe, "c06", 40000 if th else 1000), dict(timeout=40, max_workers=13)),
             ((exes["h_sorter.off"], "c06min", 21 if th else 7), dict(chunk=1, timeout=300, max_workers=3, prefix="off."))]
    if th:
        calls.append(((exes["h_sorter.plain"], "c06big", 2), dict(chunk=1, timeout=900, max_workers=1, prefix="plain.")))
    ctx.fan_parallel(calls)
    s = ctx.stats
    ctx.assumptions += ["needs the MTBL_VERIF hook (MIN_SORTER_MEMORY 1) so that kilobyte inputs split into many chunks; the c06min cases run the library built WITHOUT the hook: requests below its minimum (read from mtbl-private.h) must behave as the minimum",
                        "spill deadline uses the loosest reading: payload bytes (key+value) buffered since the last observed mkstemp must stay below max_memory; checked after every add when spills are synchronous (no worker threads), "
                        "and as a lower bound on the number of spill files in every mode after all jobs are joined",
                        "merge function = multiset union of unique ids (see C04)"]
    return ctx.finish(
        rule="add sequences of 0..900 (thorough 3000) entries over key universes of varying duplicate density in orders {random, sorted, reverse, all-equal, dups adjacent, dups spread}, memory limits from 1 byte (one entry per chunk) "
             "to everything in memory, pools {none,0,1,2,4,8}, output through the iterator (full / abandoned), mtbl_sorter_write + read back; mkstemp interposed to observe every spill; distinct_nontrivial = distinct (input, limit, pool)",
        evaluations=s.get("c06.sorts", 0),
        floors={"c06.sorts": 800, "c06.chunks.1": 100, "c06.chunks.2-4": 60, "c06.chunks.5-20": 100, "c06.chunks.>20": 100, "c06.cases_duplicates_across_chunks": 200,
                "c06.cases_with_empty_key": 100, "c06.empty_input": 5, "c06.pool.8": 50, "c06.pool.0": 50, "c06.out.sorter_write": 120, "c06.out.sorter_write_into_writer_on_the_same_pool": 20, "c06.out.iter_abandoned": 120,
                "c06.spill_deadline_checks": 100000, "c06.post_iteration_refusal_checks": 700, "c06.order.all-equal-keys": 100, "c06.failing_merge.cases": 10, "c06.failing_merge_pooled.cases": 3, "c06.temp_dir_name_with_percent_signs": 300, "c06.max_memory_request_0": 30, "c06.merge_function.smaller_operand": 100, "c06.merge_function_uses_640KiB_of_stack": 50, "c06.temp_dir_path_longer_than_300_bytes": 100,
                "off.c06min.sorts": 7, "off.c06min.request.0": 1, "off.c06min.request.1048576": 1, **({"plain.c06big.sorts": 2} if th else {})},
        extra={"spills_observed": s.get("c06.spills_observed", 0)})
