import build as B, runner

LEVEL = "exploration"
LEAKS = True


def build(ctx):
    ctx.builddir = B.fresh_dir("c18")
    d = ctx.builddir + "/asan"
    objs = B.build_lib("asan", d)
    return {"h_c18": B.build_harness("asan", d, "h_c18", ["h_c18.c"], objs, wraps=["mmap", "fopen"])}


def run(ctx):
    exe = build(ctx)["h_c18"]
    th = ctx.tier == "thorough"
    ctx.fan(exe, "c18", 20000 if th else 1200, timeout=180, leaks=True, closed_stdin_every=4)
    s = ctx.stats
    ctx.assumptions += ["histories are well-formed: iterators are destroyed before the object they came from, mergers before their readers, writers/sorters before their pool",
                        "after a failing merge callback inside a sorter chunk the history only destroys the sorter (iterating it afterwards is a different defect, outside C18)",
                        "anonymous mappings (thread stacks cached by glibc) are ignored; leaked threads are counted through /proc/self/task instead",
                        "heap accounting uses ASan's live-byte counter over 3-4 repetitions of the identical history (steady state required), LeakSanitizer for unreachable blocks"]
    return ctx.finish(
        rule="random API histories (20-110 steps, thorough 160) over thread pools, writers (pooled/refused adds), readers (valid, non-table, short file), mergers (merge fn / dupsort / failing callback), iterators of all four kinds "
             "on readers/mergers/filesets/sorters (untouched, half-drained, drained, sought), sorters (1 entry per chunk .. in memory, pooled or not, destroyed unused / before iterating / after iteration / after a reported failure), "
             "filesets with dups, reloads and setfile rewrites; teardown in a random order consistent with the dependency graph; then fd/maps/threads/dir snapshots, LSan and live-heap steady state; distinct_nontrivial = distinct histories",
        evaluations=s.get("histories", 0),
        floors={"histories": 1000, "objects.sorter": 2000, "objects.iter": 5000, "objects.fileset": 1000, "objects.merger": 2000, "objects.usersource": 300, "life.usersource.free_callback_calls_at_destroy.1": 300, "life.sorter.destroyed_before_iterating": 300,
                "life.sorter.destroyed_after_iteration": 300, "life.sorter.destroyed_unused": 100, "life.sorter.destroyed_after_reported_failure": 20, "life.sorter.pooled": 300,
                "life.iter.destroyed_half_drained": 1000, "life.iter.destroyed_untouched": 1000, "life.iter.destroyed_drained": 500, "life.merger.failing_merge_callback": 200,
                "ops.reader.non_table_returned_null": 500, "ops.writer.refused_add": 1000, "checks.lsan": 100, "ops.fileset.reload_now": 300, "ops.reader.mmap_failure_returned_null": 100, "ops.fileset.partition": 100, "ops.fileset.setfile_fopen_failed": 100, "ops.sorter_iter.again.returned_iterator": 100, "ops.codec.decompress.damaged.failure": 300, "ops.reader.forged_index_extent": 500, "life.sorter.write_refused_by_nonempty_writer": 20},
        extra={"objects_by_type": {k[len("objects."):]: v for k, v in s.items() if k.startswith("objects.")},
               "lifecycle_points": {k[len("life."):]: v for k, v in s.items() if k.startswith("life.")}})
