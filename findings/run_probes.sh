#!/bin/sh
# Runs the F1..F10 witness programs against /repo's working tree (ASan+UBSan+LSan build, hooks on).
# For each: exit 0 = correct behaviour, 1 = wrong answer, >1 = crash/abort/sanitizer report.
cd "$(dirname "$0")/.." || exit 2
D=$(mktemp -d /var/tmp/mtbl-probe.XXXXXX)
python3 - "$D" <<'P' || exit 2
import sys; sys.path.insert(0,'lib')
import build
d=sys.argv[1]
objs=build.build_lib('asan', d)
build.build_harness('asan', d, 'probe', ['../findings/probe.c'], objs)
P
for n in 1 2 3 4 5 6 7 8 9 10 11 12 13 14; do
  mkdir -p $D/w$n
  ASAN_OPTIONS=detect_leaks=1:exitcode=86 UBSAN_OPTIONS=print_stacktrace=1 timeout 300 $D/probe f$n $D/w$n > $D/out$n.txt 2>&1
  rc=$?
  echo "F$n rc=$rc $(grep -v '^ ' $D/out$n.txt | grep -E 'expected|entries|fds|ERROR|Assertion|SUMMARY|survived|->' | head -3 | tr '\n' '|')"
done
rm -rf "$D"
