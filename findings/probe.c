/* Witness programs for the defects F1..F13 found on the pinned tree (see DESIGN.md section 3).
 * usage: probe fN <workdir>     exit 0 = behaviour correct, 1 = defect shown, other = crash
 * Build: see findings/run_probes.sh (ASan build of the library objects, hooks on).
 */
#include <assert.h>
#include <dirent.h>
#include <fcntl.h>
#include <stdio.h>
#include <stdlib.h>
#include <string.h>
#include <unistd.h>
#include <sys/stat.h>
#include <mtbl.h>

static char path[4096];
static const char *wd;

static void mk(const char *name) { snprintf(path, sizeof path, "%s/%s", wd, name); unlink(path); }

static void write_k(const char *name, int n, int vlen, const char *extra_empty)
{
	mk(name);
	struct mtbl_writer_options *wo = mtbl_writer_options_init();
	mtbl_writer_options_set_compression(wo, MTBL_COMPRESSION_NONE);
	mtbl_writer_options_set_block_size(wo, 1024);
	struct mtbl_writer *w = mtbl_writer_init(path, wo);
	assert(w);
	char *v = calloc(1, vlen + 1);
	memset(v, 'v', vlen);
	if (extra_empty)
		assert(mtbl_writer_add(w, (const uint8_t *)"", 0, (const uint8_t *)"E", 1) == mtbl_res_success);
	for (int i = 0; i < n; i++) {
		char k[16];
		snprintf(k, sizeof k, "k%03d", i);
		assert(mtbl_writer_add(w, (uint8_t *)k, 4, (uint8_t *)v, vlen) == mtbl_res_success);
	}
	mtbl_writer_destroy(&w);
	mtbl_writer_options_destroy(&wo);
	free(v);
}

static int f1(void)
{
	write_k("f1.mtbl", 20, 300, NULL); /* 3 entries per 1024-byte block -> 7 blocks */
	struct mtbl_reader *r = mtbl_reader_init(path, NULL);
	struct mtbl_iter *it = mtbl_source_iter(mtbl_reader_source(r));
	const uint8_t *k, *v; size_t lk, lv;
	for (int i = 0; i < 8; i++) assert(mtbl_iter_next(it, &k, &lk, &v, &lv) == mtbl_res_success);
	assert(mtbl_iter_seek(it, (const uint8_t *)"k001", 4) == mtbl_res_success);
	assert(mtbl_iter_next(it, &k, &lk, &v, &lv) == mtbl_res_success);
	printf("after 8x next, seek(k001), next -> %.*s (expected k001)\n", (int)lk, k);
	int bad = !(lk == 4 && memcmp(k, "k001", 4) == 0);
	mtbl_iter_destroy(&it);
	mtbl_reader_destroy(&r);
	return bad;
}

static void merge_cat(void *clos, const uint8_t *key, size_t lk, const uint8_t *v0, size_t l0,
		      const uint8_t *v1, size_t l1, uint8_t **mv, size_t *lmv)
{
	if (clos && lk == 4 && memcmp(key, clos, 4) == 0) { *mv = NULL; *lmv = 0; return; }
	*mv = malloc(l0 + l1 + 1);
	memcpy(*mv, v0, l0); memcpy(*mv + l0, v1, l1);
	*lmv = l0 + l1;
}

static int f2(void)
{
	write_k("f2.mtbl", 3, 5, "yes");
	struct mtbl_reader *r = mtbl_reader_init(path, NULL);
	struct mtbl_merger_options *mo = mtbl_merger_options_init();
	mtbl_merger_options_set_merge_func(mo, merge_cat, NULL);
	struct mtbl_merger *m = mtbl_merger_init(mo);
	mtbl_merger_add_source(m, mtbl_reader_source(r));
	struct mtbl_iter *it = mtbl_source_iter(mtbl_merger_source(m));
	const uint8_t *k, *v; size_t lk, lv; int n = 0, sawempty = 0;
	while (mtbl_iter_next(it, &k, &lk, &v, &lv) == mtbl_res_success) { n++; if (lk == 0) sawempty = 1; }
	printf("merger over 1 source holding 4 entries incl. the empty key -> %d entries, empty key %s\n",
	       n, sawempty ? "present" : "MISSING");
	mtbl_iter_destroy(&it); mtbl_merger_destroy(&m); mtbl_merger_options_destroy(&mo); mtbl_reader_destroy(&r);
	return !(n == 4 && sawempty);
}

static void wsetfile(const char *names)
{
	static int ver;
	char p[4096], t[4096];
	snprintf(p, sizeof p, "%s/set.fileset", wd);
	snprintf(t, sizeof t, "%s/set.tmp", wd);
	FILE *f = fopen(t, "w"); fputs(names, f); fclose(f);
	struct timespec ts[2] = {{1000000 + ver, 0}, {1000000 + ver, 0}}; ver++;
	utimensat(AT_FDCWD, t, ts, 0);
	rename(t, p);
}

static int f3(void)
{
	write_k("x.mtbl", 3, 5, NULL);
	write_k("y.mtbl", 5, 5, NULL);
	wsetfile("x.mtbl\ny.mtbl\n");
	char p[4096]; snprintf(p, sizeof p, "%s/set.fileset", wd);
	struct mtbl_fileset_options *fo = mtbl_fileset_options_init();
	mtbl_fileset_options_set_merge_func(fo, merge_cat, NULL);
	mtbl_fileset_options_set_reload_interval(fo, MTBL_FILESET_RELOAD_INTERVAL_NEVER);
	struct mtbl_fileset *A = mtbl_fileset_init(p, fo);
	struct mtbl_fileset *B = mtbl_fileset_dup(A, fo);
	const uint8_t *k, *v; size_t lk, lv;
	struct mtbl_iter *it = mtbl_source_iter(mtbl_fileset_source(A)); mtbl_iter_destroy(&it);
	it = mtbl_source_iter(mtbl_fileset_source(B)); mtbl_iter_destroy(&it);
	wsetfile("y.mtbl\n");
	mtbl_fileset_reload_now(A);
	mtbl_fileset_reload_now(B);
	it = mtbl_source_iter(mtbl_fileset_source(B)); /* B's merger still references the reader of x */
	int n = 0;
	while (mtbl_iter_next(it, &k, &lk, &v, &lv) == mtbl_res_success) n++;
	mtbl_iter_destroy(&it);
	printf("B sees %d entries (expected 5)\n", n);
	mtbl_fileset_destroy(&B); mtbl_fileset_destroy(&A); mtbl_fileset_options_destroy(&fo);
	return n != 5;
}

static int f4(void)
{
	uint8_t *o; size_t lo;
	mtbl_res r = mtbl_compress(MTBL_COMPRESSION_ZLIB, (const uint8_t *)"abc", 3, &o, &lo);
	printf("zlib compress of 3 bytes -> %d\n", r);
	if (r == mtbl_res_success) free(o);
	return 0; /* defect = abort */
}

static int f5(void)
{
	uint8_t *o, *d; size_t lo, ld;
	mtbl_res r = mtbl_compress(MTBL_COMPRESSION_ZSTD, (const uint8_t *)"", 0, &o, &lo);
	if (r != mtbl_res_success) return 0;
	r = mtbl_decompress(MTBL_COMPRESSION_ZSTD, o, lo, &d, &ld);
	printf("zstd: compress(empty) ok, decompress -> %d\n", r);
	free(o);
	if (r == mtbl_res_success) { free(d); return ld != 0; }
	return 1;
}

static int count_fds(void)
{
	int n = 0; DIR *d = opendir("/proc/self/fd"); struct dirent *e;
	while ((e = readdir(d))) if (e->d_name[0] != '.') n++;
	closedir(d);
	return n - 1;
}

static struct mtbl_sorter *mksorter(struct mtbl_threadpool *pool, void *fail_key)
{
	struct mtbl_sorter_options *so = mtbl_sorter_options_init();
	mtbl_sorter_options_set_temp_dir(so, wd);
	mtbl_sorter_options_set_max_memory(so, 1); /* MTBL_VERIF: every add spills */
	mtbl_sorter_options_set_merge_func(so, merge_cat, fail_key);
	if (pool) mtbl_sorter_options_set_threadpool(so, pool);
	struct mtbl_sorter *s = mtbl_sorter_init(so);
	mtbl_sorter_options_destroy(&so);
	return s;
}

static int f6(void)
{
	int before = count_fds();
	struct mtbl_sorter *s = mksorter(NULL, NULL);
	for (int i = 0; i < 4; i++) { char k[8]; snprintf(k, 8, "k%03d", i); assert(mtbl_sorter_add(s, (uint8_t *)k, 4, (uint8_t *)"v", 1)); }
	struct mtbl_iter *it = mtbl_sorter_iter(s);
	mtbl_iter_destroy(&it);
	mtbl_sorter_destroy(&s);
	int after = count_fds();
	printf("fds before %d after %d\n", before, after);
	return after != before;
}

static int f7(void)
{
	struct mtbl_threadpool *p = mtbl_threadpool_init(2);
	struct mtbl_sorter *s = mksorter(p, NULL);
	for (int i = 0; i < 40; i++) { char k[8]; snprintf(k, 8, "k%03d", i); assert(mtbl_sorter_add(s, (uint8_t *)k, 4, (uint8_t *)"v", 1)); }
	mtbl_sorter_destroy(&s); /* without iterating */
	mtbl_threadpool_destroy(&p);
	printf("pooled sorter destroyed without iterating: survived\n");
	return 0; /* defect = crash */
}

static int f8(void)
{
	write_k("f8.mtbl", 5, 5, NULL);
	struct mtbl_reader *r = mtbl_reader_init(path, NULL);
	struct mtbl_merger_options *mo = mtbl_merger_options_init();
	mtbl_merger_options_set_merge_func(mo, merge_cat, NULL);
	struct mtbl_merger *m = mtbl_merger_init(mo);
	mtbl_merger_add_source(m, mtbl_reader_source(r));
	struct mtbl_iter *it = mtbl_source_iter(mtbl_merger_source(m));
	const uint8_t *k, *v; size_t lk, lv;
	assert(mtbl_iter_next(it, &k, &lk, &v, &lv));
	assert(mtbl_iter_next(it, &k, &lk, &v, &lv)); /* k001 */
	assert(mtbl_iter_seek(it, (const uint8_t *)"k001", 4));
	assert(mtbl_iter_next(it, &k, &lk, &v, &lv));
	printf("merger: next->k001; seek(k001); next -> %.*s (expected k001)\n", (int)lk, k);
	int bad = memcmp(k, "k001", 4) != 0;
	mtbl_iter_destroy(&it); mtbl_merger_destroy(&m); mtbl_merger_options_destroy(&mo); mtbl_reader_destroy(&r);
	return bad;
}

static int f9(void)
{
	write_k("f9.mtbl", 20, 300, NULL);
	struct stat st; stat(path, &st);
	int fd = open(path, O_RDWR);
	uint8_t tr[512]; pread(fd, tr, 512, st.st_size - 512);
	uint64_t ioff; memcpy(&ioff, tr, 8);
	/* index length varint -> 5-byte varint of ~2^34 (overwrites crc, irrelevant without verify) */
	uint8_t big[5] = {0xff, 0xff, 0xff, 0xff, 0x7f};
	pwrite(fd, big, 5, ioff);
	close(fd);
	struct mtbl_reader_options *ro = mtbl_reader_options_init();
	mtbl_reader_options_set_verify_checksums(ro, true);
	struct mtbl_reader *r = mtbl_reader_init(path, ro); /* crc over 2^34 bytes: reads far outside the file */
	printf("reader_init on enlarged index length -> %p\n", (void *)r);
	mtbl_reader_destroy(&r);
	mtbl_reader_options_destroy(&ro);
	return 0; /* defect = SEGV / ASan report */
}

static int f10(void)
{
	int before = count_fds();
	struct mtbl_sorter_options *so = mtbl_sorter_options_init();
	mtbl_sorter_options_set_temp_dir(so, wd);
	mtbl_sorter_options_set_max_memory(so, 200);
	mtbl_sorter_options_set_merge_func(so, merge_cat, "k001");
	struct mtbl_sorter *s = mtbl_sorter_init(so);
	mtbl_sorter_options_destroy(&so);
	mtbl_res res = mtbl_res_success;
	for (int i = 0; i < 40 && res == mtbl_res_success; i++) { char k[8]; snprintf(k, 8, "k%03d", i % 3); res = mtbl_sorter_add(s, (uint8_t *)k, 4, (uint8_t *)"v", 1); }
	printf("add reported %s\n", res == mtbl_res_success ? "success" : "failure (expected)");
	mtbl_sorter_destroy(&s);
	int after = count_fds();
	printf("fds before %d after %d (heap leaks are reported by LSan at exit)\n", before, after);
	return after != before;
}

/* F11: after the merge function reported failure, the next call (no seek in between) returns the key with a partial value */
static int f11_fail_once;
static void merge_fail_once(void *clos, const uint8_t *key, size_t lk, const uint8_t *v0, size_t l0,
			    const uint8_t *v1, size_t l1, uint8_t **mv, size_t *lmv)
{
	(void)clos;
	if (f11_fail_once && lk == 4 && memcmp(key, "k002", 4) == 0) { f11_fail_once = 0; *mv = NULL; *lmv = 0; return; }
	*mv = malloc(l0 + l1 + 1);
	memcpy(*mv, v0, l0); memcpy(*mv + l0, v1, l1);
	*lmv = l0 + l1;
}
static int f11(void)
{
	char pa[4096];
	write_k("f11a.mtbl", 5, 1, NULL); snprintf(pa, sizeof pa, "%s", path);
	write_k("f11b.mtbl", 5, 2, NULL);
	struct mtbl_reader *ra = mtbl_reader_init(pa, NULL), *rb = mtbl_reader_init(path, NULL);
	struct mtbl_merger_options *mo = mtbl_merger_options_init();
	mtbl_merger_options_set_merge_func(mo, merge_fail_once, NULL);
	struct mtbl_merger *m = mtbl_merger_init(mo);
	mtbl_merger_add_source(m, mtbl_reader_source(ra)); mtbl_merger_add_source(m, mtbl_reader_source(rb));
	struct mtbl_iter *it = mtbl_source_iter(mtbl_merger_source(m));
	const uint8_t *k, *v; size_t lk, lv; int bad = 0;
	f11_fail_once = 1;
	assert(mtbl_iter_next(it, &k, &lk, &v, &lv)); assert(mtbl_iter_next(it, &k, &lk, &v, &lv));
	mtbl_res r = mtbl_iter_next(it, &k, &lk, &v, &lv);
	printf("third next (merge function fails for k002) -> %s\n", r == mtbl_res_success ? "success" : "failure (expected)");
	r = mtbl_iter_next(it, &k, &lk, &v, &lv);
	if (r == mtbl_res_success) { printf("next after the failure, without a seek -> %.*s with a value of %zu bytes (expected: failure until the next seek; the merged value has 3 bytes)\n", (int)lk, k, lv); bad = 1; }
	else printf("next after the failure, without a seek -> failure (expected)\n");
	assert(mtbl_iter_seek(it, (const uint8_t *)"k002", 4));
	r = mtbl_iter_next(it, &k, &lk, &v, &lv);
	if (r != mtbl_res_success || lk != 4 || memcmp(k, "k002", 4) || lv != 3) { printf("after seek(k002): wrong entry\n"); bad = 1; }
	else printf("after seek(k002): k002 with the full merged value (expected)\n");
	mtbl_iter_destroy(&it); mtbl_merger_destroy(&m); mtbl_merger_options_destroy(&mo); mtbl_reader_destroy(&ra); mtbl_reader_destroy(&rb);
	return bad;
}

/* F12 / F13: zlib and snappy with inputs of 4 GiB and more (lazily mapped zero pages, nothing is really allocated) */
#include <sys/mman.h>
static int big_roundtrip(int alg, unsigned long long n)
{
	uint8_t *buf = mmap(NULL, n + 4096, PROT_READ | PROT_WRITE, MAP_PRIVATE | MAP_ANONYMOUS | MAP_NORESERVE, -1, 0);
	if (buf == MAP_FAILED) { printf("cannot map\n"); return 2; }
	buf[n - 1] = 7;
	uint8_t *out = NULL, *back = NULL; size_t lo = 0, lb = 0;
	mtbl_res r = mtbl_compress((mtbl_compression_type)alg, buf, n, &out, &lo);
	printf("algorithm %d, %llu bytes: compress -> %s", alg, n, r == mtbl_res_success ? "success" : "failure (fine)");
	int bad = 0;
	if (r == mtbl_res_success) {
		r = mtbl_decompress((mtbl_compression_type)alg, out, lo, &back, &lb);
		bad = !(r == mtbl_res_success && lb == n);
		printf(", decompress -> %s, %zu bytes back%s", r == mtbl_res_success ? "success" : "failure", lb, bad ? " (expected the input back, or a refusal to compress)" : "");
		free(out); if (r == mtbl_res_success) free(back);
	}
	printf("\n");
	munmap(buf, n + 4096);
	return bad;
}
static int f12(void) { int b = big_roundtrip(MTBL_COMPRESSION_ZLIB, 0x100001000ULL); b |= big_roundtrip(MTBL_COMPRESSION_ZLIB, 0xFFFFF000ULL); return b; }  /* second call: abort on the pinned tree */
static int f13(void) { return big_roundtrip(MTBL_COMPRESSION_SNAPPY, 0x100001000ULL); }

/* F14: zlib, 1 GiB of incompressible bytes: the compressed form has >= 2^30 bytes, the decompressor's first guess (4x) does not fit zlib's 32-bit avail_out */
static int f14(void)
{
	size_t n = (1ULL << 30) + 4096;
	uint8_t *buf = malloc(n); if (!buf) { printf("cannot allocate\n"); return 2; }
	uint64_t x = 0x9E3779B97F4A7C15ULL;
	for (size_t i = 0; i + 8 <= n; i += 8) { x ^= x << 13; x ^= x >> 7; x ^= x << 17; memcpy(buf + i, &x, 8); }
	uint8_t *out = NULL, *back = NULL; size_t lo = 0, lb = 0;
	mtbl_res r = mtbl_compress_level(MTBL_COMPRESSION_ZLIB, 1, buf, n, &out, &lo);
	printf("zlib level 1, %zu incompressible bytes: compress -> %s (%zu bytes)\n", n, r == mtbl_res_success ? "success" : "failure (fine)", lo);
	if (r != mtbl_res_success) { free(buf); return 0; }
	r = mtbl_decompress(MTBL_COMPRESSION_ZLIB, out, lo, &back, &lb);
	int bad = !(r == mtbl_res_success && lb == n && memcmp(back, buf, n) == 0);
	printf("decompress -> %s, %zu bytes back, %s\n", r == mtbl_res_success ? "success" : "failure", lb, bad ? "NOT the input (expected the input back)" : "equal to the input (expected)");
	free(out); if (r == mtbl_res_success) free(back); free(buf);
	return bad;
}

int main(int argc, char **argv)
{
	if (argc < 3) return 2;
	wd = argv[2];
	setvbuf(stdout, NULL, _IONBF, 0);
	int (*fs[])(void) = {f1, f2, f3, f4, f5, f6, f7, f8, f9, f10, f11, f12, f13, f14};
	int n = atoi(argv[1] + 1);
	if (n < 1 || n > 14) return 2;
	return fs[n - 1]();
}
