"""Compile /repo's working tree (never a cached copy) into a private build dir.

One object set per sanitizer configuration; harness binaries link the library
objects statically so that `ld --wrap=SYM` interposes the library's own calls.
"""
import os, re, shutil, subprocess, sys, time
from concurrent.futures import ThreadPoolExecutor

REPO = os.environ.get("VERIF_REPO", "/repo")
VERIF = os.path.dirname(os.path.dirname(os.path.abspath(__file__)))
HARNESS = os.path.join(VERIF, "harness")
GUARD = "MTBL_VERIF"

COMMON = ["-std=gnu99", "-g", "-fno-omit-frame-pointer", "-U_FORTIFY_SOURCE",
          "-D_GNU_SOURCE", "-w"]
CFG = {
    # alignment check off: libmy/crc32c-sse42.c reads through unaligned pointers by design
    "asan": ["-O1", "-fsanitize=address,undefined", "-fno-sanitize=alignment",
             "-fno-sanitize-recover=undefined", "-D" + GUARD],
    "tsan": ["-O1", "-fsanitize=thread", "-D" + GUARD],
    "plain": ["-O2", "-D" + GUARD],
    "off": ["-O1", "-fsanitize=address,undefined", "-fno-sanitize=alignment",
            "-fno-sanitize-recover=undefined"],
}
LIBS = ["-lsnappy", "-lz", "-llz4", "-lzstd", "-lpthread", "-ldl", "-lm"]

FALLBACK_SOURCES = """libmy/crc32c.c libmy/crc32c-slicing.c libmy/crc32c-sse42.c libmy/heap.c
libmy/my_fileset.c mtbl/block.c mtbl/block_builder.c mtbl/compression.c mtbl/crc32c_wrap.c
mtbl/fileset.c mtbl/fixed.c mtbl/iter.c mtbl/merger.c mtbl/reader.c mtbl/sorter.c mtbl/source.c
mtbl/threadpool.c mtbl/metadata.c mtbl/varint.c mtbl/writer.c""".split()


class BuildError(Exception):
    pass


def lib_sources():
    try:
        s = open(os.path.join(REPO, "Makefile.am")).read()
        m = re.search(r"mtbl_libmtbl_la_SOURCES\s*=\s*((?:.*\\\n)*.*\n)", s)
        srcs = [w for w in m.group(1).replace("\\", " ").split() if w.endswith(".c")]
        srcs = [w for w in srcs if os.path.exists(os.path.join(REPO, w))]
        if len(srcs) >= 15:
            return srcs
    except Exception:
        pass
    return [w for w in FALLBACK_SOURCES if os.path.exists(os.path.join(REPO, w))]


def config_h():
    p = os.path.join(REPO, "config.h")
    if os.path.exists(p):
        return p
    return os.path.join(HARNESS, "config_fallback.h")


def _run(cmd):
    p = subprocess.run(cmd, stdout=subprocess.PIPE, stderr=subprocess.STDOUT, text=True)
    if p.returncode != 0:
        raise BuildError("command failed: %s\n%s" % (" ".join(cmd), p.stdout[-4000:]))


COV = ["--coverage", "-DVERIF_COV"] if os.environ.get("VERIF_COV") else []   # tools/coverage.py only: which library lines the workloads reach


def cc_flags(cfg):
    return COMMON + CFG[cfg] + COV + ["-include", config_h(), "-I" + REPO, "-I" + os.path.join(REPO, "mtbl"),
                                      "-I" + HARNESS]


def build_lib(cfg, outdir, extra=()):
    """compile the library TUs of /repo; returns list of object paths"""
    os.makedirs(outdir, exist_ok=True)
    jobs = []
    objs = []
    for s in lib_sources():
        o = os.path.join(outdir, s.replace("/", "_")[:-2] + ".o")
        objs.append(o)
        jobs.append(["gcc"] + cc_flags(cfg) + list(extra) + ["-c", os.path.join(REPO, s), "-o", o])
    with ThreadPoolExecutor(16) as ex:
        list(ex.map(_run, jobs))
    return objs


def build_harness(cfg, outdir, name, sources, libobjs, wraps=(), extra=(), ldextra=()):
    exe = os.path.join(outdir, name)
    srcs = [s if os.path.isabs(s) else os.path.join(HARNESS, s) for s in sources]
    ld = []
    for w in wraps:
        ld.append("-Wl,--wrap=" + w)
    _run(["gcc"] + cc_flags(cfg) + list(extra) + srcs + libobjs + ld + list(ldextra) + LIBS + ["-o", exe])
    return exe


def build_tools(cfg, outdir, libobjs, names=("mtbl_dump", "mtbl_info", "mtbl_verify", "mtbl_merge")):
    out = {}
    jobs = []
    for n in names:
        exe = os.path.join(outdir, n)
        out[n] = exe
        jobs.append(["gcc"] + cc_flags(cfg) + [os.path.join(REPO, "src", n + ".c")] + libobjs +
                    ["-rdynamic"] + LIBS + ["-o", exe])
    with ThreadPoolExecutor(4) as ex:
        list(ex.map(_run, jobs))
    return out


def build_dso(outdir, name, source):
    so = os.path.join(outdir, name)
    _run(["gcc", "-shared", "-fPIC", "-O1", "-g", "-I" + os.path.join(REPO, "mtbl"), "-I" + HARNESS,
          source if os.path.isabs(source) else os.path.join(HARNESS, source), "-o", so])
    return so


def fresh_dir(tag):
    base = os.environ.get("VERIF_BUILD_ROOT", os.path.join(VERIF, ".build"))
    d = os.path.join(base, tag)
    shutil.rmtree(d, ignore_errors=True)
    os.makedirs(d)
    return d
