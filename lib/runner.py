"""Fan harness cases over processes, collect what the monitors observed, classify
violations against known_findings.json, write evidence and replay files."""
import json, os, re, shutil, signal, subprocess, sys, tempfile, threading, time, hashlib
from concurrent.futures import ThreadPoolExecutor

VERIF = os.path.dirname(os.path.dirname(os.path.abspath(__file__)))
NCPU = min(16, os.cpu_count() or 4)

SAN_EXIT = {86: "asan", 87: "tsan"}


def san_env(leaks=False, extra=None):
    env = dict(os.environ)
    env["ASAN_OPTIONS"] = "abort_on_error=0:exitcode=86:detect_leaks=%d:allocator_may_return_null=1:handle_abort=0:detect_stack_use_after_return=0" % (1 if leaks else 0)
    env["UBSAN_OPTIONS"] = "print_stacktrace=1:halt_on_error=1:exitcode=86"
    env["LSAN_OPTIONS"] = "exitcode=86"
    env["MALLOC_CHECK_"] = "0"
    env.pop("MTBL_READER_MADVISE_RANDOM", None)
    env["LC_ALL"] = "C"
    if extra:
        env.update(extra)
    return env


def crash_signature(rc, stderr):
    """semantic signature of an abnormal harness exit, from the sanitizer / assert text"""
    txt = stderr or ""
    m = re.search(r"ERROR: (AddressSanitizer|LeakSanitizer): ([\w-]+)", txt)
    where = ""
    for fm in re.finditer(r"#\d+ 0x[0-9a-f]+ in (\w+) (/\S+?):(\d+)", txt):
        fn, path = fm.group(1), fm.group(2)
        if "/mtbl/" in path or "/libmy/" in path or "/src/" in path:
            where = fn
            break
    if m:
        kind = m.group(2)
        if m.group(1) == "LeakSanitizer":
            kind = "leak"
        return "crash/asan/%s/%s" % (kind, where or "?")
    m = re.search(r"runtime error: ([^\n]{0,80})", txt)
    if m:
        mm = re.search(r"(\w+\.[ch]):\d+:\d+: runtime error", txt)
        return "crash/ubsan/%s/%s" % (re.sub(r"[^a-z ]", "", m.group(1).lower())[:40].strip().replace(" ", "-"), mm.group(1) if mm else where or "?")
    m = re.search(r"(\w+\.[ch]):\d+: (\w+): Assertion `([^']*)' failed", txt)
    if m:
        return "crash/assert/%s/%s" % (m.group(2), re.sub(r"\s+", "", m.group(3))[:60])
    if rc < 0:
        return "crash/signal/%s" % signal.Signals(-rc).name
    return "crash/exit/%d" % rc


class Ctx:
    def __init__(self, pid, tier, level, seed):
        self.pid = pid
        self.tier = tier
        self.level = level
        self.seed = seed
        self.t0 = time.time()
        self.stats = {}
        self.samples = []
        self.hashes = set()
        self.violations = []      # dicts: sig, msg, replay(dict)
        self.inconclusive = []    # strings
        self.partial = False      # VERIF_ONLY_SUBS was used: never a verdict of 'held'
        self.assumptions = []
        self.extra = {}
        self.workroot = tempfile.mkdtemp(prefix="mtblv-%s-" % pid, dir=os.environ.get("VERIF_TMP", "/var/tmp"))
        self.builddir = None
        self.evaluations_key = "cases"
        self.lock = threading.RLock()

    # ---------------------------------------------------------------- results
    def fan_parallel(self, calls):
        """run several fan() calls side by side; each element is (args, kwargs)"""
        with ThreadPoolExecutor(len(calls)) as ex:
            list(ex.map(lambda c: self.fan(*c[0], **c[1]), calls))

    def add_stats(self, d, prefix=""):
      with self.lock:
        for k, v in d.items():
              k = prefix + k
              if k.startswith("max.") or ".max." in k:
                  self.stats[k] = max(self.stats.get(k, 0), v)
              else:
                  self.stats[k] = self.stats.get(k, 0) + v

    def violation(self, sig, msg, replay=None):
        with self.lock:
            self.violations.append({"sig": sig, "msg": msg, "replay": replay or {}})

    def workdir(self, tag):
        d = os.path.join(self.workroot, tag)
        os.makedirs(d, exist_ok=True)
        return d

    # ---------------------------------------------------------------- fan-out
    def fan(self, exe, sub, total, args=(), chunk=None, timeout=120, env=None, tag=None, leaks=False,
            max_workers=NCPU, prefix="", start=0, cases=None, scan_stderr=None, closed_stdin_every=0):
        """run `exe sub --seed S --start a --count n ...` over [start,start+total) in parallel"""
        tag = tag or sub
        only = os.environ.get("VERIF_ONLY_SUBS")       # tools/seedtest.py only: run just the named sub-commands of a tier (the run then reports itself as partial)
        if only and sub not in only.split(","):
            self.partial = True
            return
        if cases is not None:
            chunks = [(c, 1) for c in cases]
        else:
            if total <= 0:
                return
            if chunk is None:
                chunk = max(1, (total + max_workers * 4 - 1) // (max_workers * 4))
            chunks = [(a, min(chunk, start + total - a)) for a in range(start, start + total, chunk)]
        env = env or san_env(leaks=leaks)

        def one(ch):
            a, n = ch
            out = []
            restarts = 0
            while n > 0 and restarts < 6:
                wd = self.workdir("%s-%d" % (tag, a))
                prog = os.path.join(wd, "progress")
                cmd = [exe, sub, "--seed", str(self.seed), "--start", str(a), "--count", str(n),
                       "--workdir", wd, "--progress", prog] + (["--thorough"] if self.tier == "thorough" else []) + list(args)
                try:
                    # wall-clock watchdog (inconclusive when it fires): generous per case, but bounded for a whole chunk
                    # every k-th chunk starts with descriptor 0 closed (a daemon that closed stdin): open() may then return 0
                    pre = (lambda: os.close(0)) if (closed_stdin_every and (ch[0] // max(1, ch[1])) % closed_stdin_every == closed_stdin_every - 1) else None
                    p = subprocess.run(cmd, stdout=subprocess.PIPE, stderr=subprocess.PIPE, env=env, preexec_fn=pre,
                                       timeout=min(timeout * max(1, n), max(90, 3 * timeout + 2 * n)), errors="replace")
                    rc, so, se, hung = p.returncode, p.stdout, p.stderr, False
                except subprocess.TimeoutExpired as e:
                    rc, hung = None, True
                    so = (e.stdout or b"").decode(errors="replace") if isinstance(e.stdout, bytes) else (e.stdout or "")
                    se = (e.stderr or b"").decode(errors="replace") if isinstance(e.stderr, bytes) else (e.stderr or "")
                out.append((rc, so, se, hung, cmd))
                shutil.rmtree(wd, ignore_errors=True)
                if rc == 0:
                    break
                # crashed or hung: find the case, continue after it
                try:
                    cur = int(open(prog).read().split()[0])
                except Exception:
                    cur = a
                nxt = cur + 1
                n = a + n - nxt
                a = nxt
                restarts += 1
                out[-1] = out[-1] + (cur,)
            return out

        with ThreadPoolExecutor(max_workers) as ex:
            results = list(ex.map(one, chunks))
        for outs in results:
            for o in outs:
                rc, so, se, hung, cmd = o[:5]
                self._absorb(so, sub, exe, args, prefix)
                if scan_stderr and se:
                    m0 = re.search(r"--start (\d+) --count (\d+)", " ".join(cmd))
                    for sig, msg in scan_stderr(se):
                        self.violation(sig, msg, {"exe": os.path.basename(exe), "sub": sub, "seed": self.seed,
                                                  "case": int(m0.group(1)) if m0 else None, "count": int(m0.group(2)) if m0 else 1, "args": list(args)})
                if rc == 0:
                    continue
                cur = o[5] if len(o) > 5 else None
                replay = {"exe": os.path.basename(exe), "sub": sub, "seed": self.seed, "case": cur, "args": list(args)}
                if hung:
                    # wall-clock watchdog: inconclusive; re-run the single case alone once.  At most four such re-runs per fan: a change that makes
                    # every case hang must not turn a check into hours of sequential waiting (the remaining hangs are recorded without a second try)
                    reruns_done = getattr(self, "_reruns_%s" % tag, 0)
                    setattr(self, "_reruns_%s" % tag, reruns_done + 1)
                    again = self._rerun_single(exe, sub, cur, args, env, timeout * 3) if reruns_done < 4 else "hang"
                    if again == "hang":
                        self.inconclusive.append("case %s of %s exceeded the watchdog%s" % (cur, sub, " twice" if reruns_done < 4 else " (not re-run: four re-runs already spent)"))
                    elif again is not None:
                        self.violation(again[0], again[1], replay)
                elif rc == -9:
                    # SIGKILL never comes from the code under test: an operator, a clean-up script or the OOM killer ended the process
                    self.inconclusive.append("harness %s %s was killed with SIGKILL from outside in case %s (no verdict for that chunk)" % (os.path.basename(exe), sub, cur))
                elif rc == 75:
                    pass      # the harness reported a violation itself (V line) and had to stop the process; continue with the next case
                elif rc in (76, 97, 98, 99) or re.search(r"/verif/harness/[\w.]+:\d+:\d+: runtime error", se or "") or \
                        (rc == 86 and "AddressSanitizer" in (se or "") and "/harness/" in (se or "") and not re.search(r" in \w+ /\S*/(mtbl|libmy|src)/", se or "")):
                    # a sanitizer report whose stacks never enter the library is a defect of the harness itself
                    self.inconclusive.append("harness failure rc=%d in %s case %s: %s" % (rc, sub, cur, se[-300:]))
                else:
                    self.violation(crash_signature(rc, se), "harness %s %s died (rc=%s) in case %s: %s" %
                                   (os.path.basename(exe), sub, rc, cur, _tail(se)), replay)

    def _rerun_single(self, exe, sub, case, args, env, timeout):
        if case is None:
            return "hang"
        wd = self.workdir("rerun-%s-%s" % (sub, case))
        cmd = [exe, sub, "--seed", str(self.seed), "--start", str(case), "--count", "1", "--workdir", wd] + \
              (["--thorough"] if self.tier == "thorough" else []) + list(args)
        try:
            p = subprocess.run(cmd, stdout=subprocess.PIPE, stderr=subprocess.PIPE, env=env, timeout=timeout, errors="replace")
        except subprocess.TimeoutExpired:
            return "hang"
        finally:
            shutil.rmtree(wd, ignore_errors=True)
        self._absorb(p.stdout, sub, exe, args, "")
        if p.returncode == 0:
            return None
        return (crash_signature(p.returncode, p.stderr), "case %s died on isolated re-run: %s" % (case, _tail(p.stderr)))

    def _absorb(self, so, sub, exe, args, prefix):
      with self.lock:
        for line in (so or "").splitlines():
              if line.startswith("S "):
                  try:
                      self.add_stats(json.loads(line[2:]), prefix)
                  except Exception:
                      pass
              elif line.startswith("V "):
                  try:
                      v = json.loads(line[2:])
                  except Exception:
                      continue
                  self.violation(v["sig"], v["msg"], {"exe": os.path.basename(exe), "sub": sub, "seed": self.seed,
                                                     "case": v.get("case"), "args": list(args)})
              elif line.startswith("X "):
                  if len(self.samples) < 6:
                      try:
                          self.samples.append(json.loads(line[2:]))
                      except Exception:
                          pass
              elif line.startswith("I "):
                  try:
                      self.inconclusive.append("%s case %s: %s" % (sub, json.loads(line[2:]).get("case"), json.loads(line[2:]).get("msg")))
                  except Exception:
                      self.inconclusive.append(line[:200])
              elif line.startswith("H "):
                  self.hashes.update(line[2:].split())

    # ---------------------------------------------------------------- finish
    def finish(self, rule, evaluations=None, distinct=None, floors=None, exhaustive=None, extra=None, explanation=None):
        """write evidence, print verdict lines, return exit code"""
        kf = load_known()
        new, known = [], {}
        for v in self.violations:
            hit = None
            for k in kf:
                if k.get("property") == self.pid and k.get("status") == "known" and re.fullmatch(k["signature"], v["sig"]):
                    hit = k
                    break
            if hit:
                known.setdefault(hit["signature"], (hit, 0))
                known[hit["signature"]] = (hit, known[hit["signature"]][1] + 1)
            else:
                new.append(v)
        if self.partial:
            self.inconclusive.append("partial run (VERIF_ONLY_SUBS=%s): only violations are meaningful" % os.environ.get("VERIF_ONLY_SUBS"))
        # coverage floors -> inconclusive
        for name, minimum in (floors or {}).items():
            if self.stats.get(name, 0) < minimum:
                self.inconclusive.append("coverage floor not met: %s = %s < %s" % (name, self.stats.get(name, 0), minimum))
        ev = evaluations if evaluations is not None else self.stats.get(self.evaluations_key, 0)
        dn = distinct if distinct is not None else len(self.hashes)
        cov = {"evaluations": int(ev), "distinct_nontrivial": int(dn), "rule": rule,
               "samples": self.samples[:6] or [{"note": "no sample emitted"}],
               "observed": dict(sorted(self.stats.items()))}
        if exhaustive is not None:
            cov["exhaustive"] = bool(exhaustive)
        if explanation:
            cov["explanation"] = explanation
        if extra:
            cov.update(extra)
        if self.inconclusive:
            cov["inconclusive"] = self.inconclusive[:20]
        if known:
            cov["known_findings_seen"] = {s: c for s, (k, c) in known.items()}
        # distinct signatures
        sigs = {}
        for v in new:
            sigs.setdefault(v["sig"], []).append(v)
        evd = {"property_id": self.pid, "tier": self.tier, "seed": int(self.seed), "level": self.level,
               "coverage": cov, "assumptions": self.assumptions, "wall_s": round(time.time() - self.t0, 2),
               "violations": len(sigs)}
        evdir = os.environ.get("VERIF_EVIDENCE_DIR", os.path.join(VERIF, "evidence"))
        os.makedirs(evdir, exist_ok=True)
        with open(os.path.join(evdir, self.pid + ".json"), "w") as f:
            json.dump(evd, f, indent=1, sort_keys=False)
            f.write("\n")
        for s, (k, c) in known.items():
            print("KNOWN-FINDING: property=%s %s (seen %d times)" % (self.pid, k.get("what", s), c))
        rc = 0
        if sigs:
            rdir = os.path.join(os.environ.get("VERIF_REPLAY_DIR", os.path.join(VERIF, "replays")), self.pid)
            os.makedirs(rdir, exist_ok=True)
            for s, vs in sorted(sigs.items()):
                v = vs[0]
                name = re.sub(r"[^A-Za-z0-9_.-]+", "_", s)[:80] + "-" + hashlib.sha1(json.dumps(v["replay"], sort_keys=True).encode()).hexdigest()[:8] + ".json"
                path = os.path.join(rdir, name)
                with open(path, "w") as f:
                    json.dump({"property": self.pid, "signature": s, "message": v["msg"], "count": len(vs),
                               "tier": self.tier, "replay": v["replay"]}, f, indent=1)
                print("VIOLATION property=%s replay=%s" % (self.pid, path))
                print("  signature=%s  (%d occurrences)  %s" % (s, len(vs), v["msg"][:400]))
            rc = 1
        elif self.inconclusive:
            for i in self.inconclusive[:10]:
                print("INCONCLUSIVE property=%s %s" % (self.pid, i))
            rc = 2
        print("%s %s seed=%s: %s; evaluations=%d distinct_nontrivial=%d wall=%.1fs" %
              (self.pid, self.tier, self.seed, "VIOLATED" if rc == 1 else ("INCONCLUSIVE" if rc == 2 else "held on everything explored"),
               ev, dn, time.time() - self.t0))
        shutil.rmtree(self.workroot, ignore_errors=True)
        if self.builddir and not os.environ.get("VERIF_KEEP_BUILD"):
            shutil.rmtree(self.builddir, ignore_errors=True)
        return rc


def _tail(s, n=600):
    s = (s or "").strip()
    lines = [l for l in s.splitlines() if l.strip()]
    keep = [l for l in lines if re.search(r"ERROR|SUMMARY|Assertion|runtime error|#0|#1|#2|#3", l)]
    t = " | ".join((keep or lines)[:8])
    return t[:n]


def load_known():
    p = os.path.join(VERIF, "known_findings.json")
    try:
        return json.load(open(p)).get("findings", [])
    except Exception:
        return []


def tsan_env(extra=None):
    env = dict(os.environ)
    env["TSAN_OPTIONS"] = "halt_on_error=0:exitcode=0:report_signal_unsafe=0:history_size=4:second_deadlock_stack=1"
    env["LC_ALL"] = "C"
    if extra:
        env.update(extra)
    return env


def parse_tsan(se, counters=None):
    """-> list of (signature, message) for data-race reports that involve library code; other report kinds are only counted"""
    out = []
    for blk in re.findall(r"WARNING: ThreadSanitizer: .*?(?:SUMMARY: ThreadSanitizer:[^\n]*\n)", se, flags=re.S):
        kind = re.match(r"WARNING: ThreadSanitizer: ([^\n(]+)", blk).group(1).strip()
        if counters is not None:
            counters["tsan.reports." + kind.replace(" ", "_")] = counters.get("tsan.reports." + kind.replace(" ", "_"), 0) + 1
        if kind != "data race":
            continue
        # the two access stacks
        parts = re.split(r"\n\s*\n", blk)
        acc = []
        for part in parts:
            if re.match(r"\s*(Write|Read|Previous write|Previous read|Atomic write|Atomic read|Previous atomic \w+) of size", part.strip()):
                fr = re.findall(r"#\d+ (\S+) (/\S+?):\d+", part)
                # the accessing code is the first frame outside the sanitizer runtime / libc interceptors;
                # a race whose accessing frames are both harness code (e.g. a user callback's own counter) is not the library's
                own = [(f, path) for f, path in fr if "/libsanitizer/" not in path and "/sysdeps/" not in path and "/string/" not in path]
                top = own[0] if own else None
                acc.append((top[0] if top and re.search(r"/(mtbl|libmy|src)/", top[1]) else None, top))
        libfuncs = sorted(set(a for a, _ in acc if a))
        if not libfuncs:
            if counters is not None:
                counters["tsan.reports.harness_only_race"] = counters.get("tsan.reports.harness_only_race", 0) + 1
            continue
        loc = re.search(r"Location is ([^\n]+)", blk)
        summ = re.search(r"SUMMARY: ThreadSanitizer: ([^\n]*)", blk)
        out.append(("C14/data-race/" + "|".join(libfuncs), "ThreadSanitizer: %s; %s" % (summ.group(1) if summ else "data race", (loc.group(1) if loc else "")[:160])))
    return out
